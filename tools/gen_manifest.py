#!/usr/bin/env python3
"""Generates /verif/MANIFEST.json from the table below (single source of truth)."""
import json, os

CHECKS = {
 "C01": ("model_checking", "4 (C01)",
  "World_L1 (allocator as in entity.rs) is model-checked against World_L0 (handle freshness, no two not-dead entities on one index) for every history within the bounds; every explored transition becomes an op script that is replayed on the real World, and every recorded trace (plus seeded random long traces through all nine creation paths) is validated by TLC against World_L0.",
  "small scope: <=3 indices, generations <=3, <=8 ops exhaustively; random traces up to 4000 ops; generation overflow out of reach",
  "TLA+ model checking (TLC) + trace validation of real executions against World_L0"),
 "C02": ("model_checking", "4 (C02)",
  "World_L0 predicts, for every handle ever issued, aliveness after every operation (create/delete/maintain timeline), the result and failing position of every deletion, and the exact entities join; TLC checks World_L1 => World_L0 exhaustively in small scope and validates every trace recorded from the real code.",
  "same bounds as C01; World::is_alive only compared for merged handles (documented as a merged view)",
  "TLA+ model checking (TLC) + trace validation of real executions against World_L0"),
 "C03": ("model_checking", "4 (C03)",
  "Every handle-taking access path (get, get_mut, contains, insert, remove, entry API, get_mut_or_default, lending-join get, restricted get_other/get_other_mut asked from every joined item) is exercised with handles of every status (live, doomed, dead, dead with index reused merged/unmerged) chosen by TLC / the random driver; World_L0 requires a dead handle to behave as absent and the full observation sweep to be unchanged.",
  "storage kinds rotate over scripts (the aliveness checks are generic code); bounds as C01",
  "TLA+ model checking (TLC) + trace validation of real executions against World_L0"),
 "C05": ("model_checking", "4 (C05)",
  "World_L0 removes a dying handle's entry from every storage and nothing else; after every operation the harness sweeps mask and get(h) of every storage for every handle and TLC compares. Storages are made known to the world in six ways (register, register_with_storage, setup of Read/WriteStorage, Dispatcher::setup, double register). Deletion paths: immediate, deferred+maintain, failing batch (prefix only), delete_all, dropped builders, deletions from lazy closures.",
  "<=3 storages per world; bounds as C01",
  "TLA+ model checking (TLC) + trace validation of real executions against World_L0"),
 "C09": ("model_checking", "4 (C09)",
  "World_L1 models maintain as merge / purge / drain-one-at-a-time; World_L0 keeps the FIFO of queued lazy actions. Closures log from inside maintain (with a full observation sweep taken at that instant), so order, exactly-once, nesting, 'after merge and purge', and target-only effects of lazy insert/insert_all/remove/builder are all compared by TLC.",
  "closure bodies are drawn from a menu of world operations (create, delete, insert, queue further closures); nested maintain inside a closure is not exercised",
  "TLA+ model checking (TLC) + trace validation of real executions against World_L0"),
 "C17": ("model_checking", "4 (C17)",
  "World_L0 tracks the peak number of simultaneously not-dead handles and requires every new index to be below it; World_L1 carries the free list (with the deferred-pop length) and the invariant that every dead index below the counter is on it. Exhaustive in small scope, plus long create/delete churn traces on the real code.",
  "bounds as C01; churn traces up to 4000 ops with <=16 live entities",
  "TLA+ model checking (TLC) + trace validation of real executions against World_L0"),
}

NOT_YET = {
 "C04": "check not built yet (store domain in progress)",
 "C06": "check not built yet", "C07": "check not built yet", "C08": "check not built yet",
 "C10": "check not built yet", "C11": "check not built yet", "C12": "check not built yet",
 "C13": "check not built yet", "C14": "check not built yet", "C15": "check not built yet",
 "C16": "check not built yet", "C18": "check not built yet", "C19": "check not built yet",
 "C20": "check not built yet",
}

def main():
    checks = []
    for pid in sorted(CHECKS):
        cat, ref, text, note, tech = CHECKS[pid]
        checks.append({
            "property_id": pid,
            "quick_cmd": "./check %s --tier quick" % pid,
            "thorough_cmd": "./check %s --tier thorough" % pid,
            "evidence_file": "/verif/evidence/%s.json" % pid,
            "replay_cmd_template": "./check %s --replay {path}" % pid,
            "engine": "tlc-trace",
            "level_claimed": {"category": cat, "text": text, "design_ref": "DESIGN.md section " + ref},
            "level_note": note,
            "technique": tech,
        })
    m = {
        "version": 1,
        "setup_cmd": "cd /verif/harness && CARGO_NET_OFFLINE=true cargo build --release --offline",
        "hooks": {
            "guard": "specs_verif",
            "enable": "RUSTFLAGS --cfg specs_verif via /verif/harness/.cargo/config.toml (the harness has a path dependency on /repo)",
            "baseline_off_cmd": "cd /repo && cargo test --workspace --no-fail-fast --offline",
            "source_commits": [],
            "add_only": True,
        },
        "engines": [
            {"name": "tlc-trace", "path": "/verif/check",
             "serves_properties": sorted(CHECKS),
             "kind_free_text": "explicit TLA+ specifications (spec/*.tla): implementation-shaped L1 models model-checked by TLC against property-level L0 monitors; TLC-emitted op scripts and seeded random scripts are replayed on the real code by a Rust harness (harness/), and TLC validates the recorded ndjson traces against the L0 monitors"},
        ],
        "checks": checks,
        "not_applicable": [{"property_id": k, "reason": v} for k, v in sorted(NOT_YET.items()) if k not in CHECKS],
        "notes": "Only a violation of a property-level (L0) specification on a validated trace of the real code yields VIOLATION/exit 1; tool errors exit 2. See DESIGN.md.",
    }
    with open(os.path.join(os.path.dirname(os.path.dirname(os.path.abspath(__file__))), "MANIFEST.json"), "w") as f:
        json.dump(m, f, indent=1)
        f.write("\n")

if __name__ == "__main__":
    main()
