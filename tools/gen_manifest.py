#!/usr/bin/env python3
"""Generates /verif/MANIFEST.json from the table below (single source of truth)."""
import json, os

CHECKS = {
 "C01": ("model_checking", "4 (C01)",
  "World_L1 (allocator as in entity.rs) is model-checked against World_L0 (handle freshness, no two not-dead entities on one index) for every history within the bounds; every explored transition becomes an op script that is replayed on the real World, and every recorded trace (plus seeded random long traces through all nine creation paths) is validated by TLC against World_L0.",
  "small scope: <=3 indices, generations <=3, <=8 ops exhaustively; random traces up to 4000 ops; generation overflow out of reach",
  "TLA+ model checking (TLC) + trace validation of real executions against World_L0"),
 "C02": ("model_checking", "4 (C02)",
  "World_L0 predicts, for every handle ever issued, aliveness after every operation (create/delete/maintain timeline), the result and failing position of every deletion, and the exact entities join; TLC checks World_L1 => World_L0 exhaustively in small scope and validates every trace recorded from the real code.",
  "same bounds as C01; World::is_alive only compared for merged handles (documented as a merged view)",
  "TLA+ model checking (TLC) + trace validation of real executions against World_L0"),
 "C03": ("model_checking", "4 (C03)",
  "Every handle-taking access path (get, get_mut, contains, insert, remove, entry API, get_mut_or_default, lending-join get, restricted get_other/get_other_mut asked from every joined item) is exercised with handles of every status (live, doomed, dead, dead with index reused merged/unmerged) chosen by TLC / the random driver; World_L0 requires a dead handle to behave as absent and the full observation sweep to be unchanged.",
  "storage kinds rotate over scripts (the aliveness checks are generic code); bounds as C01",
  "TLA+ model checking (TLC) + trace validation of real executions against World_L0"),
 "C05": ("model_checking", "4 (C05)",
  "World_L0 removes a dying handle's entry from every storage and nothing else; after every operation the harness sweeps mask and get(h) of every storage for every handle and TLC compares. Storages are made known to the world in six ways (register, register_with_storage, setup of Read/WriteStorage, Dispatcher::setup, double register). Deletion paths: immediate, deferred+maintain, failing batch (prefix only), delete_all, dropped builders, deletions from lazy closures.",
  "<=3 storages per world; bounds as C01",
  "TLA+ model checking (TLC) + trace validation of real executions against World_L0"),
 "C09": ("model_checking", "4 (C09)",
  "World_L1 models maintain as merge / purge / drain-one-at-a-time; World_L0 keeps the FIFO of queued lazy actions. Closures log from inside maintain (with a full observation sweep taken at that instant), so order, exactly-once, nesting, 'after merge and purge', and target-only effects of lazy insert/insert_all/remove/builder are all compared by TLC.",
  "closure bodies are drawn from a menu of world operations (create, delete, insert, queue further closures); nested maintain inside a closure is not exercised",
  "TLA+ model checking (TLC) + trace validation of real executions against World_L0"),
 "C17": ("model_checking", "4 (C17)",
  "World_L0 tracks the peak number of simultaneously not-dead handles and requires every new index to be below it; World_L1 carries the free list (with the deferred-pop length) and the invariant that every dead index below the counter is on it. Exhaustive in small scope, plus long create/delete churn traces on the real code.",
  "bounds as C01; churn traces up to 4000 ops with <=16 live entities",
  "TLA+ model checking (TLC) + trace validation of real executions against World_L0"),
 "C04": ("model_checking", "4 (C04)",
  "Store_L1 transcribes each storage kind's data structure (VecStorage slots with uninit/live/moved, DenseVecStorage data/entity_id/data_id with swap-remove, DefaultVecStorage fillers, maps, NullStorage) behind the MaskedStorage mask; TLC checks it against the plain map of World_L0 for every operation sequence in small scope, every explored transition is replayed on all 18 storage instantiations (6 kinds, both wrappers) and long seeded histories (incl. far-apart indices, slices, drain, clear, entry API, get_mut_or_default) are validated by TLC against World_L0.",
  "<=3 ids exhaustively (incl. layer-boundary ids 63/64), random histories of 100-300 ops; index overflow paths are dead code on this target",
  "TLA+ model checking (TLC) + trace validation of real executions against World_L0"),
 "C08": ("model_checking", "4 (C08)",
  "Every component value carries a unique id and reports its destruction to a ledger; World_L0 keeps for every id moved into a world whether it is held, handed back or destroyed and compares with the instrumented ledger when the world is dropped (every trace ends with teardown); every value seen in any lookup, join, drain or slice must equal the map's (hence be held). Zero-sized components are checked by conservation. Store_L1 carries a destroyed-set ghost so TLC checks 'nothing a lookup can return was destroyed' on the algorithm.",
  "a never-written slot that is exposed is only seen if its bytes are not the expected value (not a memory-model argument)",
  "TLA+ model checking (TLC) + trace validation of real executions against World_L0 with an instrumented drop ledger"),
 "C12": ("model_checking", "4 (C12)",
  "World_L0 predicts the exact event stream of both change-tracking wrappers (Inserted / Removed / Modified, FlaggedStorage on hand-out, DerefFlaggedStorage on mutable deref, nothing while emission is off, Removed on entity deletion through any path); a reader registered at world creation is read after every operation and TLC compares. Store_L1 models the wrappers' channel writes and is model-checked against the same monitor.",
  "the Modified that directly follows the Inserted of one vacant-entry insertion on FlaggedStorage is accepted as optional (the property text admits both readings); clear() emits nothing by design",
  "TLA+ model checking (TLC) + trace validation of real executions against World_L0"),
 "C13": ("model_checking", "4 (C13)",
  "Joins over restrict()/restrict_mut() (sequential, lending, parallel) with a scripted choice per item (read / fetch mutably / fetch and write), get_other / get_other_mut asked from every joined item with handles of every status; World_L0 requires visited set = members, reads = direct lookup, writes local, other-entity lookups as the storage itself, Modified events only for items fetched mutably.",
  "storage kinds rotate over scripts",
  "TLA+ trace validation of real executions against World_L0 (+ World_MC scripts)"),
 "C06": ("model_checking", "4 (C06)",
  "Bits_L1 models the layered bit sets (And/Or/Not/Xor layer by layer, BitIter descent) over layer-boundary indices and TLC checks iteration = set-theoretic result, ascending, for ALL pairs of subsets; Join_L0 specifies a join as a function of the members; the harness runs 33 tuple shapes (all member kinds, arities 1..16) x sequential / lending next / for_each / get-by-entity on boundary-family and random memberships (real, dead, unmerged and far-apart entities) and TLC checks every logged join (items in order, values = direct lookups, writes local, lending get iff alive and member).",
  "tuple arity is capped at 16 by the library (BitAnd); vec-backed members below index 2^18, bit sets and map-backed members to 2^24-1",
  "TLA+ model checking (TLC) of the bit-set model + trace validation of real joins against Join_L0"),
 "C07": ("model_checking", "4 (C07)",
  "Bits_L1 models producer splitting (any cut leaving a member on each side - a superset of the code's) and TLC checks that every split tree partitions the set; through the add-only hook join::verif_split_fold the real JoinProducer replays scripted split trees, and real rayon pools of 1..64 threads run par_join on the same inputs; TLC checks each logged parallel join against Join_L0 as a multiset (nothing missing, nothing twice, all writes visible).",
  "rayon's own stealing decisions cannot be enumerated (the hook enumerates the split trees they can produce); data races on distinct indices are not observable",
  "TLA+ model checking (TLC) of the split model + trace validation of real parallel joins against Join_L0"),
 "C16": ("model_checking", "4 (C16)",
  "ChangeSet_MC models ChangeSet::add over the dense storage and TLC checks it lists the arrival-order fold for every pair sequence in scope; every sequence (and random long ones over far-apart indices) is fed to the real ChangeSet by collect / extend / add in several segmentations; amounts are sequences so order of combination is observable; TLC checks listings, joins with a storage, mutable joins, consumption by value (full and partial) and drop accounting against ChangeSet_L0.",
  "oracle + enumeration; there is little state machine in this property",
  "TLA+ model checking (TLC) + trace validation against ChangeSet_L0"),
 "C10": ("model_checking", "4 (C10)",
  "AllocConc_L1 breaks Entities::create / delete into the code's atomic steps (load, compare-exchange with retry and spurious failure, raised.add_atomic, generation read, is_alive / killed.add_atomic) and TLC enumerates every sequentially consistent interleaving of several small thread programs, checking distinct handles, own handle alive on return, faithful deletion results and alive = initial + created - requested after the merge. The thread-id sequence of every explored transition (plus random ones) is replayed on real threads by a cooperative scheduler through add-only yield-point hooks; free-running stress runs on 2..32 threads (with joins and lazy queuing) add sampled schedules; TLC validates every logged run against Conc_L0.",
  "weak-memory reorderings are only sampled by the free-running runs (the property says so); AtomicBitSet::add_atomic and crossbeam's SegQueue are treated as atomic",
  "TLA+ model checking (TLC) of interleavings + schedule replay on real threads + trace validation against Conc_L0"),
 "C11": ("model_checking", "4 (C11)",
  "For every storage handle type the harness extracts from the real code what it declares (reads()/writes()) and what fetch() really borrows (probing every resource with fetch / fetch_mut while the handle is held); the table must satisfy declared = borrowed. Dispatch.tla guards Enter by the declared sets and states the invariants on the actual borrows; TLC checks all graphs of <= 3 systems over the shape menu and all schedules. Random graphs of instrumented systems (16 SystemData shapes over 5 storages incl. zero-sized and flagged ones, Entities, Write<EntitiesRes>, LazyUpdate; dependencies, barriers) run on the real dispatcher with pools of 1..64 threads; TLC validates every logged dispatch (each system once per round, no writer overlapping another user, dependencies and barriers respected, no borrow panic).",
  "the staging algorithm is shred's and is only validated on observed schedules; overlaps at the very edge of a borrow interval can be missed",
  "TLA+ model checking (TLC) + extraction of declared/borrowed sets from the real code + trace validation of real dispatches"),
}

NOT_YET = {
 "C04": "check not built yet (store domain in progress)",
 "C06": "check not built yet", "C07": "check not built yet", "C08": "check not built yet",
 "C10": "check not built yet", "C11": "check not built yet", "C12": "check not built yet",
 "C13": "check not built yet", "C14": "check not built yet", "C15": "check not built yet",
 "C16": "check not built yet", "C18": "check not built yet", "C19": "check not built yet",
 "C20": "check not built yet",
}

def main():
    checks = []
    for pid in sorted(CHECKS):
        cat, ref, text, note, tech = CHECKS[pid]
        checks.append({
            "property_id": pid,
            "quick_cmd": "./check %s --tier quick" % pid,
            "thorough_cmd": "./check %s --tier thorough" % pid,
            "evidence_file": "/verif/evidence/%s.json" % pid,
            "replay_cmd_template": "./check %s --replay {path}" % pid,
            "engine": "tlc-trace",
            "level_claimed": {"category": cat, "text": text, "design_ref": "DESIGN.md section " + ref},
            "level_note": note,
            "technique": tech,
        })
    m = {
        "version": 1,
        "setup_cmd": "cd /verif/harness && CARGO_NET_OFFLINE=true cargo build --release --offline",
        "hooks": {
            "guard": "specs_verif",
            "enable": "RUSTFLAGS --cfg specs_verif via /verif/harness/.cargo/config.toml (the harness has a path dependency on /repo)",
            "baseline_off_cmd": "cd /repo && cargo test --workspace --no-fail-fast --offline",
            "source_commits": ["15c5e7b", "06dcf78"],
            "add_only": True,
        },
        "engines": [
            {"name": "tlc-trace", "path": "/verif/check",
             "serves_properties": sorted(CHECKS),
             "kind_free_text": "explicit TLA+ specifications (spec/*.tla): implementation-shaped L1 models model-checked by TLC against property-level L0 monitors; TLC-emitted op scripts and seeded random scripts are replayed on the real code by a Rust harness (harness/), and TLC validates the recorded ndjson traces against the L0 monitors"},
        ],
        "checks": checks,
        "not_applicable": [{"property_id": k, "reason": v} for k, v in sorted(NOT_YET.items()) if k not in CHECKS],
        "notes": "Only a violation of a property-level (L0) specification on a validated trace of the real code yields VIOLATION/exit 1; tool errors exit 2. See DESIGN.md.",
    }
    with open(os.path.join(os.path.dirname(os.path.dirname(os.path.abspath(__file__))), "MANIFEST.json"), "w") as f:
        json.dump(m, f, indent=1)
        f.write("\n")

if __name__ == "__main__":
    main()
