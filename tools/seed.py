#!/usr/bin/env python3
"""Seeded-defect bookkeeping.

  seed.py verify <src_dir> <name>    confirm a sub-agent's mutant in a scratch worktree
                                     (compiles, existing suite passes, demo fails with / passes without)
                                     and keep it as /verif/seeded/<name>/
  seed.py run <name> [prop ...]      apply /verif/seeded/<name>/patch.diff to /repo, run the checks
                                     (default: the property it breaks), undo, record the outcome
  seed.py runall [--tier quick]      run every kept mutant against the check of its property
"""
import json, os, subprocess, sys, shutil, time

VERIF = "/verif"
SEEDED = os.path.join(VERIF, "seeded")
WT = "/tmp/mutv"


def sh(cmd, cwd=None, timeout=3600):
    p = subprocess.run(cmd, cwd=cwd, shell=isinstance(cmd, str), stdout=subprocess.PIPE, stderr=subprocess.STDOUT,
                       text=True, errors="replace", timeout=timeout, env=dict(os.environ, CARGO_NET_OFFLINE="true"))
    return p.returncode, p.stdout


def ensure_wt():
    if not os.path.isdir(WT):
        rc, out = sh(["git", "-C", "/repo", "worktree", "add", "-q", "--detach", WT, "HEAD"])
        if rc:
            sys.exit("cannot create worktree: " + out)
    sh("git checkout -q --detach $(git -C /repo rev-parse HEAD) && git checkout -- . && git clean -fdq -e target", cwd=WT)


def verify(src, name):
    ensure_wt()
    meta = json.load(open(os.path.join(src, "meta.json")))
    feats = ""
    dc = meta.get("demo_cmd", "")
    if "--features" in dc:
        feats = "--features " + dc.split("--features")[1].split()[0]
    log = []
    # 1. clean tree: demo passes
    shutil.copy(os.path.join(src, "demo.rs"), os.path.join(WT, "tests", "seed_demo.rs"))
    rc, out = sh("cargo test --offline %s --test seed_demo 2>&1 | tail -15" % feats, cwd=WT)
    ok_clean = "test result: ok" in out
    log.append("demo on clean tree: " + ("pass" if ok_clean else "FAIL"))
    # 2. patched: suite passes, demo fails
    rc, out = sh(["git", "apply", os.path.join(src, "patch.diff")], cwd=WT)
    if rc:
        print("patch does not apply:", out); return False
    rc, out = sh("cargo test --offline %s --test seed_demo 2>&1 | tail -15" % feats, cwd=WT)
    fails_mut = "test result: FAILED" in out or "panicked" in out
    log.append("demo with patch: " + ("fails (as required)" if fails_mut else "DOES NOT FAIL"))
    os.remove(os.path.join(WT, "tests", "seed_demo.rs"))
    rc, out = sh("cargo test --workspace --offline 2>&1 | grep -E '^test result|FAILED|error' | head -20", cwd=WT)
    suite_ok = "FAILED" not in out and "error" not in out and out.count("test result: ok") >= 3
    log.append("existing suite with patch: " + ("passes" if suite_ok else "FAILS: " + out[-500:]))
    if feats:
        rc, out = sh("cargo test --offline %s 2>&1 | grep -E '^test result|FAILED|error' | head -20" % feats, cwd=WT)
        ok2 = "FAILED" not in out and "error" not in out
        log.append("suite with %s with patch: %s" % (feats, "passes" if ok2 else "FAILS"))
        suite_ok = suite_ok and ok2
    sh("git checkout -- . && git clean -fdq -e target", cwd=WT)
    good = ok_clean and fails_mut and suite_ok
    print("\n".join(log)); print("=>", "KEEP" if good else "REJECT")
    if good:
        d = os.path.join(SEEDED, name)
        os.makedirs(d, exist_ok=True)
        shutil.copy(os.path.join(src, "patch.diff"), d)
        shutil.copy(os.path.join(src, "demo.rs"), d)
        meta["confirmed"] = log
        meta["repo_commit"] = sh(["git", "-C", "/repo", "rev-parse", "--short", "HEAD"])[1].strip()
        meta.setdefault("results", {})
        json.dump(meta, open(os.path.join(d, "meta.json"), "w"), indent=1)
    return good


def run(name, props, tier="quick"):
    # SEED_REPO: the tree the patch is applied to (default /repo; a scratch worktree when /repo is busy -
    # then SEED_VERIF must be a copy of /verif whose harness and lib point at that worktree)
    REPO = os.environ.get("SEED_REPO", "/repo")
    d = os.path.join(SEEDED, name)
    meta = json.load(open(os.path.join(d, "meta.json")))
    props = props or [meta["property"]]
    rc, out = sh(["git", "-C", REPO, "status", "--porcelain", "--untracked-files=no"])
    if out.strip():
        sys.exit(REPO + " is dirty: " + out)
    rc, out = sh(["git", "-C", REPO, "apply", os.path.join(d, "patch.diff")])
    if rc:
        # the patch was made before the hook commits; fall back to a fuzzy apply
        rc, out = sh("patch -p1 -F3 --no-backup-if-mismatch < %s" % os.path.join(d, "patch.diff"), cwd=REPO)
        if rc:
            sh(["git", "-C", REPO, "checkout", "--", "."])
            sys.exit("patch does not apply: " + out)
    res = {}
    try:
        for p in props:
            t0 = time.time()
            # SEED_VERIF: run the checks from a snapshot of /verif (so that /verif can be edited meanwhile)
            vr = os.environ.get("SEED_VERIF", VERIF)
            rc, out = sh([os.path.join(vr, "check"), p, "--tier", tier], cwd=vr, timeout=7200)
            lines = [l for l in out.splitlines() if l.startswith(("VIOLATION", "OK ", "KNOWN", "TOOL-ERROR", "  violation"))]
            res[p] = {"exit": rc, "tier": tier, "wall_s": round(time.time() - t0), "lines": lines[:8]}
            print(name, p, "exit", rc, "|", "; ".join(lines[:3])[:400])
            if rc == 2:
                print(out[-1500:])
    finally:
        sh(["git", "-C", REPO, "checkout", "--", "."])
        sh("git -C %s clean -fdq -e target" % REPO)
    meta.setdefault("results", {}).update(res)
    json.dump(meta, open(os.path.join(d, "meta.json"), "w"), indent=1)
    return res


if __name__ == "__main__":
    a = sys.argv[1:]
    if a[0] == "verify":
        sys.exit(0 if verify(a[1], a[2]) else 1)
    elif a[0] == "run":
        run(a[1], a[2:])
    elif a[0] == "runall":
        tier = a[2] if len(a) > 2 and a[1] == "--tier" else "quick"
        for n in sorted(os.listdir(SEEDED)):
            if os.path.isdir(os.path.join(SEEDED, n)):
                run(n, [], tier)
