#!/usr/bin/env python3
"""Prepare a round of seeded-defect requests for fresh sub-agents.

  mkprompts.py <round_dir> <hint-file|-> <id> [<id> ...]

For every property id: a scratch worktree of /repo at <round_dir>/<id> and a prompt
<round_dir>/prompt_<id>.txt that contains ONLY the property's text, the rules, and
one-line summaries of the mutants that already exist for it (so that the new ones
use other sites) - nothing else from /verif.
"""
import json, os, subprocess, sys

VERIF = "/verif"


def main():
    rd = sys.argv[1]
    hint = sys.argv[2]
    ids = sys.argv[3:]
    hint_text = open(hint).read().strip() if hint != "-" else ""
    props = {}
    for l in open(os.path.join(VERIF, "properties.jsonl")):
        p = json.loads(l)
        props[p["id"]] = p
    os.makedirs(rd, exist_ok=True)
    for pid in ids:
        wt = os.path.join(rd, pid)
        if not os.path.isdir(wt):
            subprocess.check_call(["git", "-C", "/repo", "worktree", "add", "-q", "--detach", wt, "HEAD"])
        p = props[pid]
        existing = []
        for d in sorted(os.listdir(os.path.join(VERIF, "seeded"))):
            if d.startswith(pid + "-"):
                m = json.load(open(os.path.join(VERIF, "seeded", d, "meta.json")))
                existing.append(" - " + m.get("summary", "")[:420].replace("\n", " "))
        text = p.get("title", "")
        body = p.get("statement") or p.get("description") or ""
        q = p.get("quantifier") or {}
        quant = q.get("text", "") if isinstance(q, dict) else str(q)
        saveload = pid in ("C14", "C15", "C18")
        prompt = f"""You are helping to evaluate a verification framework by producing realistic *seeded defects* ("mutants") for a Rust library.

The library is amethyst/specs (an Entity-Component-System library, version 0.20.0). You have your own scratch git worktree of it at {wt} (detached HEAD). Work ONLY inside {wt}. Never touch /repo or /verif (do not read /verif either). The sandbox has no network: always use `cargo ... --offline`.

The semantic property you must break:

-----
{pid} - {text}

{body}

Quantification: {quant}
-----

Task: produce TWO different changes (mutants M1 and M2, using different mechanisms / different code sites) to the library source (src/ or specs-derive/src/ under {wt}) such that for EACH change on its own:
 1. the crate still compiles, and the whole existing test suite still passes with the change applied:  `cd {wt} && cargo test --workspace --offline` (all unit tests, integration tests and doc tests must pass{"; ALSO run `cargo test --offline --features serde,uuid_entity` and make sure nothing that passed before fails" if saveload else "; if the change touches src/world/entity.rs or the save/load module also run `cargo test --offline --features serde,uuid_entity` and make sure nothing that passed before fails"});
 2. the property above is violated for some usage of the public API;
 3. the violation needs something specific to manifest - e.g. a particular multi-step sequence of operations, an unusual input (a boundary index, a repeated handle, a particular storage kind), a particular interleaving, or two cooperating sites that each look fine alone. It must NOT be something that ordinary use would expose at once (e.g. not "create always returns the same handle"). Think of a plausible bug a maintainer could introduce in a refactoring or optimisation and that code review might miss.
 4. you provide a demonstration: a single integration-test file (to be placed at tests/<name>.rs in the crate; it may only use the public API of `specs`, dev-dependencies already in Cargo.toml, and std) with a #[test] that PASSES on the unmodified tree and FAILS (assertion failure or panic) with the change applied. Verify both directions yourself by actually running it (`cargo test --offline --test <name>`; add `--features ...` if needed and say so).

IMPORTANT - several mutants for this property already exist; yours must use DIFFERENT code sites and mechanisms from all of these:
{chr(10).join(existing) if existing else " (none yet)"}

{hint_text}

Note: the library source contains a few `#[cfg(specs_verif)]` hook lines and a `src/verif.rs` module; leave them alone and do not rely on them.

Keep each change small (a few lines) and semantic (no cfg tricks, no randomness, no time/environment dependence, no changes to tests, no API/signature changes, no new dependencies). Do not write comments in the patch that reveal it is a seeded bug.

Deliverables - write them to {wt}/OUT/m1/ and {wt}/OUT/m2/ :
  - patch.diff : output of `git diff` for the library change ONLY (not the demo test), relative to the worktree root, so that `git apply patch.diff` works on a clean checkout of the same commit;
  - demo.rs    : the demonstration test file;
  - meta.json  : {{"property": "{pid}", "summary": "<what the change does>", "needs": "<what is needed for the violation to manifest>", "demo_cmd": "<exact cargo command to run the demo once demo.rs is copied to tests/<name>.rs>", "ran": ["<commands you ran and their outcome, incl. the full test suite with the patch and the demo with and without the patch>"]}}

When you are done: revert the worktree to a clean state (`git -C {wt} checkout -- . && git -C {wt} clean -fdq -e OUT`) and delete the build output (`rm -rf {wt}/target`) to save disk. Leave only the OUT directory. Reply with a short summary of the two mutants (what/where/why it needs something specific) and confirm the verification you ran. If you could only produce one sound mutant, deliver one and say so.
"""
        open(os.path.join(rd, "prompt_%s.txt" % pid), "w").write(prompt)
        print("ok", pid, len(existing), "existing")


if __name__ == "__main__":
    main()
