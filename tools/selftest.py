#!/usr/bin/env python3
"""Does the binding bind?  (DESIGN.md 2.2, "vacuity control")

For every trace domain a handful of scripts is run on the real code; then, for
every event type and every recorded field (including the parts of the
observation sweep), ONE occurrence of that field is corrupted - a boolean
flipped, a number changed, the last element of a list dropped, a string
altered - and TLC must reject the corrupted trace (a violation of some
property, or a trace the specification cannot interpret).  A corruption TLC
accepts is a field the specifications do not constrain: it is listed, and the
exit code is 1 if there is any outside the allow-list below.

  python3 tools/selftest.py [domain ...]        (world join cs conc dispatch sl)
"""
import copy, json, os, random, sys

VERIF = os.path.dirname(os.path.dirname(os.path.abspath(__file__)))
sys.path.insert(0, VERIF)
from lib import common as C          # noqa: E402
from lib import worldgen as G        # noqa: E402

# fields that carry no claim (identification, echo of the script, informational)
SKIP = {"op", "tid", "cfg", "w", "panic", "worlds", "mode", "threads_n", "shape", "variant", "how", "tag", "take", "fmt", "ctx", "drift", "path",
        "v", "val", "c", "rec", "watch", "top", "kind", "in", "msg", "k", "s", "sel", "name", "reads", "writes", "deps", "stage", "rounds",
        "threads", "tfault", "refill", "fclear", "fired", "store", "pairs", "mem", "ents", "init", "hs", "spec", "T", "V", "mks", "recs"}
# accepted on purpose (with the reason)
ALLOW = {
    ("world", "SOp", "b"): "contains() is reported as `b` only when the path is contains; other paths report `res`",
    ("cs", "CS", "ledger.destroyed"): "the corrupted entry belongs to the storage joined with, not to the change set (its own amount objects are compared exactly)",
    ("cs", "CS", "ledger.zc"): "no zero-sized values in the change-set experiments",
    ("cs", "CS", "ledger.zharn"): "no zero-sized values in the change-set experiments",
    ("cs", "CS", "ledger.zlib"): "no zero-sized values in the change-set experiments",
    ("world", "Prealloc", "n"): "the number of entities created up front is an input of the script (it only raises the bound on indices used for C17)",
    ("world", "Created", "with"): "the components a builder attaches are an input of the event, the sweep checks the outcome",
    ("world", "Created", "obs.walive"): "World::is_alive is a merged view: compared for merged handles only (DESIGN, C02)",
}


def mutate(v):
    """one small corruption of a JSON value, or None if nothing sensible applies"""
    if isinstance(v, bool):
        return not v
    if isinstance(v, int):
        return v + 1
    if isinstance(v, str):
        return v + "x"
    if isinstance(v, list):
        if not v:
            return None
        if isinstance(v[-1], dict):
            return v[:-1]            # a record of the run (e.g. one system's execution) goes missing
        # corrupt the last element (an inconsistent observation) rather than dropping it (a missing one)
        m = mutate(v[-1])
        if m is not None:
            return v[:-1] + [m]
        return v[:-1]
    if isinstance(v, dict):
        for k in sorted(v):
            m = mutate(v[k])
            if m is not None:
                return dict(v, **{k: m})
    return None


def targets(ev):
    """(label, getter-path) of every field of the event worth corrupting"""
    out = []
    for k, v in ev.items():
        if k in SKIP:
            continue
        if k == "obs" and isinstance(v, dict):
            for ok, ov in v.items():
                if ok == "st":
                    for si, st in enumerate(ov[:1]):
                        for sk in st:
                            out.append(("obs.st.%s" % sk, ["obs", "st", si, sk]))
                elif ok not in ("hs",):
                    out.append(("obs.%s" % ok, ["obs", ok]))
        elif k == "obs":
            out.append(("obs", ["obs"]))
        elif k in ("after", "ledger", "post") and isinstance(v, dict):
            for ok in v:
                out.append(("%s.%s" % (k, ok), [k, ok]))
        else:
            out.append((k, [k]))
    return out


def get(ev, path):
    for p in path:
        ev = ev[p]
    return ev


def put(ev, path, val):
    for p in path[:-1]:
        ev = ev[p]
    ev[path[-1]] = val


def scripts_for(dom, rng):
    if dom == "world":
        kinds = ["vec", "dense", "hash", "defvec", "null", "f_vec", "d_dense", "p_hash"]
        # (one storage, few entities, first: there the operations mostly find a component)
        return (G.kind_churn_scripts(9, 1, 150, 99150000, kinds=["dense", "f_vec"])
                + G.random_scripts(7, 8, 60, [1, 2], 99000000, profile="mixed", sweep="full", kinds=kinds)
                + G.random_scripts(8, 6, 60, [1], 99100000, profile="store", sweep="full", kinds=["f_vec", "d_dense", "dense", "defvec"])), "World_Trace"
    if dom == "join":
        from lib import joins
        js = joins.gen_scripts(3, "quick", False) + joins.gen_scripts(3, "quick", True)
        rng.shuffle(js)
        return js[:80], "Join_Trace"
    if dom == "cs":
        from lib import cs
        out = []
        for i in range(12):
            n = rng.randint(2, 12)
            ids = rng.sample(cs.FAR, 3)
            out.append({"tid": 99200000 + i, "pairs": [[rng.choice(ids), k + 1] for k in range(n)], "how": cs.segmentations(n, rng, 1)[-1],
                        "store_ids": ids[:2], "take": -1, "lend": i % 2 == 0})
        return out, "ChangeSet_Trace"
    if dom == "conc":
        out = []
        for i in range(8):
            progs = [[["create"], ["delown"], ["create"], ["lazy", 10 * t + 1], ["delete", 1], ["join"], ["create"],
                      ["lazyins", 2, t * 100000 + 501], ["lazycreate", t * 100000 + 600]] for t in range(3)]
            out.append({"tid": 99300000 + i, "mode": "free", "alive_ids": [0, 1], "free_seq": [2, 3], "progs": progs, "schedule": [], "post": i % 2})
        return out, "Conc_Trace"
    if dom == "dispatch":
        out = []
        for i in range(8):
            out.append({"tid": 99400000 + i, "kind": "dispatch", "threads": 4, "rounds": 2,
                        "systems": [{"shape": s, "deps": ([0] if j == 2 else []), "spin": 2} for j, s in enumerate([1, 0, 3, 5, 7, 6, 11])]})
        return out, "Dispatch_Trace"
    if dom == "sl":
        from lib import saveload
        sc = saveload.content_scripts("quick", rng, 99500000)
        rng.shuffle(sc)
        return [s for s in sc if s["marker"] == "simple"][:25], "SaveLoad_Trace"
    raise SystemExit("unknown domain " + dom)


def main():
    doms = sys.argv[1:] or ["world", "join", "cs", "conc", "dispatch", "sl"]
    C.build_harness()
    rng = random.Random(5)
    holes, total = [], 0
    for dom in doms:
        scripts, module = scripts_for(dom, rng)
        wd = os.path.join(C.OUT, "work", "selftest_%s_%d" % (dom, os.getpid()))
        C.sh(["rm", "-rf", wd])
        os.makedirs(wd)
        sp, tp = os.path.join(wd, "s.ndjson"), os.path.join(wd, "t.ndjson")
        with open(sp, "w") as f:
            for s in scripts:
                f.write(json.dumps(s) + "\n")
        r = C.sh([C.BIN, dom, sp, tp], timeout=600)
        if r.returncode != 0:
            raise SystemExit("harness failed: " + r.stdout[-500:])
        evs = [json.loads(l) for l in open(tp)]
        n0, v0 = C.validate_trace(tp, module + ".tla", module + ".cfg")
        if v0:
            raise SystemExit("the uncorrupted %s trace is not accepted: %s" % (dom, v0[:2]))
        # per (event type, field): up to 10 occurrences where a corruption applies (one occurrence can be a
        # case in which the field does not matter, e.g. the handle of a removal that finds nothing);
        # the field is bound if at least one corruption of it is rejected
        done = {}
        for i, ev in enumerate(evs):
            for label, path in targets(ev):
                key = (ev["op"] + ("/" + str(ev.get("k", ev.get("cls", ""))) if ev["op"] in ("WOp", "SOp") else ""), label)
                if len(done.get(key, [])) >= 10:
                    continue
                val = get(ev, path)
                # (World::is_alive is recorded as 0 / 1, 2 = not asked)
                if label == "obs.walive":
                    m = [1 - x if x in (0, 1) else x for x in val]
                elif label == "made" and len(val) > 1:
                    # (a created handle reported twice; a record that goes missing cannot be noticed)
                    m = val[:-1] + [dict(val[-1], h=val[0]["h"])]
                else:
                    m = mutate(val)
                if m == val:
                    continue
                if m is None:
                    continue
                done.setdefault(key, []).append((i, path, m))
        print("[%s] %d events, %d (event type, field) pairs" % (dom, len(evs), len(done)))
        for (et, label), occ in sorted(done.items()):
            rejected, how = False, ""
            for (i, path, m) in occ:
                mevs = copy.deepcopy(evs)
                put(mevs[i], path, m)
                mp = os.path.join(wd, "m.ndjson")
                with open(mp, "w") as f:
                    for e in mevs:
                        f.write(json.dumps(e, separators=(",", ":")) + "\n")
                total += 1
                try:
                    n, v = C.validate_trace(mp, module + ".tla", module + ".cfg")
                    rejected = bool(v)
                    how = v[0]["p"] + ": " + v[0]["m"][:60] if v else ""
                except C.ToolError:
                    rejected, how = True, "not interpretable"
                if rejected:
                    break
            if not rejected:
                allow = ALLOW.get((dom, et.split("/")[0], label))
                holes.append((dom, et, label, allow))
                print("   ACCEPTED  %-22s %-22s %s" % (et, label, ("(allowed: %s)" % allow) if allow else "<-- not constrained"))
            else:
                print("   rejected  %-22s %-22s %s" % (et, label, how))
        C.sh(["rm", "-rf", wd])
    bad = [h for h in holes if not h[3]]
    print("corruptions tried: %d, accepted: %d (allowed: %d)" % (total, len(holes), len(holes) - len(bad)))
    return 1 if bad else 0


if __name__ == "__main__":
    sys.exit(main())
