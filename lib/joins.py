"""Join domain (C06, C07): membership assignments over the boundary-index
family of Bits_L1 (and random ones), for every member kind / tuple arity shape
and every way of driving a join (sequential, lending next / for_each / get,
rayon pools of 1..64 threads, scripted producer split trees through the
cfg(specs_verif) hook); the real joins are run by the harness and every logged
join is checked by TLC against Join_L0."""
import itertools
import os
import random

from . import common as C

MODULE = "Join_Trace.tla"
CFG = "Join_Trace.cfg"

# (shape, member kinds) - must mirror harness/src/join_dom.rs SHAPES
SHAPES = [
    ("r", ["r"]), ("w", ["w"]), ("r_r", ["r", "r"]), ("w_r", ["w", "r"]), ("e_r", ["e", "r"]),
    ("e_w_r", ["e", "w", "r"]), ("r_n", ["r", "n"]), ("e_n", ["e", "n"]), ("r_m", ["r", "m"]),
    ("w_mw", ["w", "mw"]), ("e_m_m", ["e", "m", "m"]), ("e_mm_nest", ["e", "m", "m"]), ("b_r", ["b", "r"]), ("bv", ["bv"]),
    ("band_r", ["band", "r"]), ("bor", ["bor"]), ("bnot_r", ["bnot", "r"]), ("bxor_m", ["bxor", "m"]),
    ("rs_r", ["rs", "r"]), ("rsm_r", ["rsm", "r"]), ("e_rsm", ["e", "rsm"]), ("cs_r", ["cs", "r"]),
    ("csm_w", ["csm", "w"]), ("csv_r", ["csv", "r"]), ("dr_r", ["dr", "r"]), ("dr", ["dr"]),
    ("e_dr", ["e", "dr"]), ("r_fr", ["r", "r"]),
    ("ab_r", ["b", "r"]), ("abv", ["bv"]), ("dyn_r", ["b", "r"]), ("rband_r", ["band", "r"]), ("rbor", ["bor"]),
    ("rbnot_r", ["bnot", "r"]),
    ("ar6", ["r"] * 6), ("ar7", ["r"] * 7), ("ar9", ["r"] * 9), ("ar10", ["r"] * 10), ("ar11", ["r"] * 11),
    ("ar12", ["r"] * 12), ("ar13", ["r"] * 13), ("ar14", ["r"] * 14), ("ar15", ["r"] * 15),
    ("res_fb_r", ["b", "r"]), ("res_rb_r", ["b", "r"]), ("res_reb_r", ["b", "r"]),
    ("res_fmcs_w", ["csm", "w"]), ("res_wcs_w", ["csm", "w"]), ("res_wecs_w", ["csm", "w"]),
    ("u_n", ["n"]), ("u_m", ["m"]), ("u_n_m", ["n", "m"]), ("u_mw", ["mw"]), ("u_bnot_m", ["bnot", "m"]), ("a3", ["w", "r", "r"]), ("a4", ["r", "w", "r", "m"]),
    ("a5", ["e", "r", "w", "n", "r"]), ("a8", ["w", "r", "r", "r", "r", "r", "m", "r"]),
    ("a16", ["w"] + ["r"] * 15), ("a16e", ["e", "w"] + ["r"] * 13 + ["m"]),
]
SEQ_ONLY = {"cs_r", "csm_w", "csv_r", "dr_r", "dr", "e_dr", "dyn_r", "res_fmcs_w", "res_wcs_w", "res_wecs_w"}          # no ParJoin
UNC = {"u_n", "u_m", "u_n_m", "u_mw", "u_bnot_m"}               # walk all 2^24 indices
NO_GET = {"csv_r", "dr_r", "dr", "e_dr", "csm_w", "e_rsm", "res_fmcs_w", "res_wcs_w", "res_wecs_w"}           # no lend_get in the harness
NO_LEND = {"e_rsm", "dr", "e_dr"}
VEC_BACKED_MAX = 300000          # positions backed by VecStorage / DefaultVecStorage
VEC_POS = {0, 4, 5, 9, 10, 14, 16}  # member positions whose storage is vector-backed (see join_dom.rs by_pos)
AROUND_TOP = [262142, 262143, 262144, 262145, 266240]   # both sides of the 64^3 boundary

# indices with all base-64 digits in {0, 63}: every one sits on a layer boundary
B3 = [0, 63, 4032, 4095, 258048, 258111, 262080, 262143]
B4 = B3 + [16515072 + x for x in B3]          # fourth digit 63 (bit sets and map-backed storages only)
NEAR = [0, 1, 2, 31, 62, 63, 64, 65, 127, 128, 4031, 4032, 4033, 4095, 4096, 4097]
# memberships that lie entirely inside ONE top-level group other than the first (64^3 indices per group)
UPPER1 = [262144, 262145, 262207, 266239, 266240, 299999]
UPPER3 = [786432 + x for x in (0, 1, 63, 4095, 4096)]            # bit sets and map-backed storages only
# ... and inside the groups around the middle of the index space (2^23 = group 32) and the last one
UPPER31 = [31 * 262144 + x for x in (0, 63, 4096, 262143)]
UPPER32 = [32 * 262144 + x for x in (0, 1, 63, 4095, 4096, 262143)]
UPPER63 = [63 * 262144 + x for x in (0, 1, 64, 4095, 262143)]
UPPERHALF = UPPER32[:3] + [40 * 262144 + 5, 47 * 262144 + 4097] + UPPER63[-2:]     # nothing below 2^23


def family(U):
    """boundary family of masks over U"""
    fam = [[], list(U)]
    fam += [[u] for u in U]
    fam += [[a, b] for a, b in zip(U, U[1:])]
    fam += [[u for u in U if u != x] for x in U[:4]]
    fam += [U[::2], U[1::2], U[: len(U) // 2], U[len(U) // 2:]]
    return fam


def variants_for(shape):
    v = ["join"]
    if shape not in NO_LEND:
        v += ["lend", "lend_for_each"]
    if shape not in NO_GET and shape not in NO_LEND:
        v.append("lend_get")
    if shape not in SEQ_ONLY:
        v += ["par", "split"]
    return v


def trees(maxlen):
    out = [[]]
    for n in range(1, maxlen + 1):
        for t in itertools.product([0, 1], repeat=n):
            if t[0] == 1:
                out.append(list(t))
    return out


def mk_script(tid, shape, kinds, variant, masks, rng, n_ent, n_raised=0, dead=(), threads=4, tree=(), doomed=()):
    members = []
    for k, kind in enumerate(kinds):
        ids = list(masks[k % len(masks)])
        if kind in ("r", "w", "n", "m", "mw", "rs", "rsm", "dr", "cs", "csm", "csv") and (k in VEC_POS or shape == "r_fr"):
            ids = [i for i in ids if i <= VEC_BACKED_MAX]
        m = {"ids": ids}
        if kind in ("band", "bor", "bxor"):
            m["ids2"] = list(masks[(k + 1) % len(masks)])
        if kind in ("r", "w", "rs", "rsm", "m", "mw", "dr") and rng.random() < 0.5:
            # insertion order and remove/re-insert churn shape the dense tables
            rng.shuffle(m["ids"])
            m["churn"] = [i for i in m["ids"] if rng.random() < 0.3]
        members.append(m)
    return {"tid": tid, "shape": shape, "variant": variant, "n_ent": n_ent, "n_raised": n_raised,
            "dead": list(dead), "doomed": list(doomed), "threads": threads, "tree": list(tree), "members": members,
            # every third world with real entities is maintained before the join (created-and-deleted in one frame, merged)
            "maintain": n_ent > 0 and tid % 3 == 0}


def gen_scripts(seed, tier, want_par):
    rng = random.Random(seed * 65537 + (1 if want_par else 0))
    scripts = []
    tid = 21000000 if not want_par else 22000000
    fam3 = family(B3)
    famN = family(NEAR[:8]) + family(NEAR[8:])
    pools = [1, 2, 3, 4, 8, 16, 64, 96]
    tr = trees(5 if tier == "quick" else 7)
    per_pair = 1 if tier == "quick" else 3
    for shape, kinds in SHAPES:
        vs = [v for v in variants_for(shape) if (v in ("par", "split")) == want_par]
        if not vs:
            continue
        fams = [fam3, famN]
        combos = []
        for fam in fams:
            if len([k for k in kinds if k != "e"]) <= 1:
                combos += [(a, a) for a in fam]
            else:
                pairs = [(a, b) for a in fam for b in fam]
                rng.shuffle(pairs)
                combos += pairs[: (40 if tier == "quick" else 400)]
        # random masks over the 4-digit boundary universe (bit sets / map-backed members reach 2^24-1)
        for _ in range(10 if tier == "quick" else 120):
            a = [u for u in B4 if rng.random() < 0.5]
            b = [u for u in B4 if rng.random() < 0.6]
            combos.append((a, b))
        for U in (UPPER1, UPPER3, UPPER31, UPPER32, UPPER63, UPPERHALF):
            fu = family(U)
            rng.shuffle(fu)
            for a in fu[: ((6 if U in (UPPER1, UPPER3) else 3) if tier == "quick" else 40)]:
                combos.append((a, [u for u in U if u in a or rng.random() < 0.6]))
        for _ in range(6 if tier == "quick" else 60):
            pool = B3[:4] + AROUND_TOP
            a = [u for u in pool if rng.random() < 0.7]
            b = [u for u in pool if rng.random() < 0.8]
            combos.append((a, b))
        # dense low indices with real entities, some dead, some created atomically and not yet merged
        for _ in range(12 if tier == "quick" else 150):
            n = rng.randint(3, 40)
            a = [i for i in range(n + 4) if rng.random() < 0.6]
            b = [i for i in range(n + 4) if rng.random() < 0.7]
            combos.append((a, b, n))
        if shape in UNC:
            # each of these walks the whole index space (2^24 items): fewer of them
            rng.shuffle(combos)
            combos = combos[: (24 if tier == "quick" else 150)]
        for ci, combo in enumerate(combos):
            for _ in range(per_pair):
                v = vs[(ci + rng.randrange(len(vs))) % len(vs)]
                masks = [combo[0], combo[1]]
                # further members: supersets that keep the intersection interesting
                extra = sorted(set(combo[0]) | set(combo[1]))
                for j in range(16):
                    masks.append([u for u in extra if rng.random() < 0.85])
                if len(combo) == 3:
                    n_ent = combo[2]
                    dead = [i for i in range(n_ent) if rng.random() < 0.15]
                    n_raised = rng.randint(0, 3)
                else:
                    n_ent = rng.choice([0, 1, 64, 65])
                    dead = [i for i in range(n_ent) if rng.random() < 0.1]
                    n_raised = rng.randint(0, 2)
                # deferred deletions pending on some entities: of the dying ones (deleted for good right
                # after) and of some that stay alive until a maintain that never comes
                doomed = [i for i in range(n_ent) if rng.random() < (0.5 if i in dead else 0.1)]
                scripts.append(mk_script(tid, shape, kinds, v, masks, rng, n_ent, n_raised, dead,
                                         threads=pools[(ci + tid) % len(pools)], tree=tr[(ci * 7 + tid) % len(tr)], doomed=doomed))
                tid += 1
    if want_par:
        # deep producer trees: a thousand members, one per 64-index word, split ten and more levels deep
        # (scripted trees; and real pools of up to 64 threads on the same memberships)
        wide = [64 * k + (k % 7) for k in range(1024)]
        for i in range(6 if tier == "quick" else 40):
            shape, kinds = [("r", ["r"]), ("b_r", ["b", "r"]), ("w_r", ["w", "r"]), ("e_r", ["e", "r"])][i % 4]
            a = wide if i % 2 == 0 else [u for u in wide if rng.random() < 0.8]
            depth = rng.choice([9, 10, 12])
            tree = [1] * depth + [0] * (depth + 1) if i % 3 else [1] * depth + [0, 1, 0, 0] + [0] * depth
            scripts.append(mk_script(tid, shape, kinds, "split" if i % 3 else "par", [a, a], rng, 0, threads=64, tree=tree))
            tid += 1
    return scripts


def bits_cfg(depth):
    return """SPECIFICATION Spec
CONSTANTS
  P = {0, 63}
  Depth = %d
INVARIANT IterCorrect
INVARIANT Partition
CHECK_DEADLOCK FALSE
""" % depth


def run(prop, tier, seed):
    want_par = prop == "C07"
    params = {"par": want_par, "tier": tier}
    key = C.suite_key("join-" + prop, params, seed, tier)
    hit = C.cache_get(key)
    if hit is not None:
        hit["cache_hit"] = True
        return [hit]
    res = {"suite": "join_" + ("par" if want_par else "seq"), "kind": "enum+rand", "params": params, "cache_hit": False}
    res["rule"] = "each case = (tuple shape, driving variant, membership of every member over the layer-boundary index family or random, real/dead/unmerged entities, pool size or split tree); one logged join per case, checked by TLC against Join_L0; distinct = distinct scripts"
    st, _ = C.model_check("Bits_L1.tla", bits_cfg(2 if tier == "quick" else 3), "bits_" + tier, workers=8, want_scripts=False)
    res["mc"] = st
    scripts = gen_scripts(seed, tier, want_par)
    workdir = os.path.join(C.OUT, "work", "%s_%d" % (key, os.getpid()))
    C.sh(["rm", "-rf", workdir])
    r = C.exec_and_validate("join", scripts, workdir, MODULE, CFG, events_per_chunk=1500)
    res.update(n_scripts=r["n_scripts"], n_events=r["n_events"], wall_s=r["wall_s"])
    bytid = {s["tid"]: s for s in scripts}
    viol, seen = [], set()
    for v in sorted(r["viol"], key=lambda x: (x["p"], x["tid"])):
        if (v["p"], v["tid"]) in seen:
            continue
        seen.add((v["p"], v["tid"]))
        ent = {"p": v["p"], "tid": v["tid"], "m": v["m"], "d": v["d"][:3000], "line": v["line"]}
        if len(viol) < 8:
            ent["script"] = bytid.get(v["tid"])
        viol.append(ent)
    res["viol"] = viol
    res["samples"] = [scripts[0], scripts[len(scripts) // 2]]
    res["extra"] = {"shapes": len(SHAPES), "variants": sorted({s["variant"] for s in scripts})}
    C.sh(["rm", "-rf", workdir])
    C.cache_put(key, res)
    return [res]


def check(prop, tier, seed):
    # joins over single storages inside the world / store traces are charged to C06 / C07 as well
    from . import store
    thunks = [lambda: run(prop, tier, seed), lambda: store.run_suite("kind_churn", tier, seed)]
    if prop == "C06":
        thunks.append(lambda: store.run_suite("world:mc_store", tier, seed))
    return C.run_until_violation(prop, thunks)
