"""Per-property driver: runs the suites that decide the property, applies the
alarm policy (only L0 violations on validated real traces are VIOLATIONs),
matches known findings, writes the evidence file."""
import argparse
import json
import os
import sys
import time
import traceback

from . import common as C

LEVEL = {
    "C19": "fault_enumeration", "C20": "exploration", "C18": "translation_validation",
}


def domain_of(prop):
    if prop in ("C01", "C02", "C03", "C05", "C09", "C17"):
        from . import world
        return world
    if prop in ("C04", "C08", "C12", "C13"):
        from . import store
        return store
    if prop in ("C06", "C07"):
        from . import joins
        return joins
    if prop == "C10":
        from . import conc
        return conc
    if prop == "C11":
        from . import dispatch
        return dispatch
    if prop == "C19":
        from . import fault
        return fault
    if prop in ("C14", "C15"):
        from . import saveload
        return saveload
    if prop == "C20":
        from . import det
        return det
    if prop == "C18":
        from . import derive
        return derive
    if prop == "C16":
        from . import cs
        return cs
    raise C.ToolError("no check registered for " + prop)


def finding_matches(f, prop, v):
    if f.get("status") != "known" or f.get("property") != prop:
        return False
    m = f.get("match", {})
    if "message" in m and m["message"] not in v.get("m", ""):
        return False
    if "detail" in m and m["detail"] not in v.get("d", ""):
        return False
    if "script_has" in m:
        s = json.dumps(v.get("script", {}))
        if not all(x in s for x in m["script_has"]):
            return False
    return True


def main(argv):
    try:
        return _main(argv)
    finally:
        import shutil
        shutil.rmtree(os.path.join(C.OUT, "cfg", "p%d" % os.getpid()), ignore_errors=True)


def _main(argv):
    ap = argparse.ArgumentParser()
    ap.add_argument("prop")
    ap.add_argument("--tier", default=os.environ.get("VERIF_TIER", "quick"))
    ap.add_argument("--seed", type=int, default=int(os.environ.get("VERIF_SEED", "1") or "1"))
    ap.add_argument("--replay", default=None)
    a = ap.parse_args(argv)
    prop, tier, seed = a.prop, a.tier, a.seed
    if tier not in ("quick", "thorough"):
        tier = "quick"
    t0 = time.time()
    try:
        dom = domain_of(prop)
        C.build_harness()
        if a.replay:
            from . import replay
            return replay.replay(prop, a.replay)
        results = dom.check(prop, tier, seed)
    except C.ToolError as e:
        print("TOOL-ERROR property=%s %s" % (prop, str(e)[:6000]), file=sys.stderr)
        return 2
    except Exception:
        traceback.print_exc()
        return 2

    known = C.known_findings()
    viols = []
    known_hits = []
    for r in results:
        for v in r.get("viol", []):
            if v["p"] not in (prop, "*"):
                continue
            v = dict(v, suite=r["suite"])
            kf = [f for f in known if finding_matches(f, prop, v)]
            if kf:
                known_hits.append((kf[0], v))
            else:
                viols.append(v)

    states = sum(r.get("mc", {}).get("states", 0) for r in results)
    trans = sum(r.get("mc", {}).get("transitions", 0) for r in results)
    ntr = sum(r.get("n_scripts", 0) for r in results)
    nev = sum(r.get("n_events", 0) for r in results)
    samples = []
    for r in results:
        samples.extend(r.get("samples", [])[:1])
    level = LEVEL.get(prop, "model_checking")
    cov = {
        "traces_validated_against_impl": ntr,
        "events_validated": nev, "samples": samples[:4],
        "evaluations": ntr, "distinct_nontrivial": sum(r.get("distinct", r.get("n_scripts", 0)) for r in results),
        "rule": next((r["rule"] for r in results if r.get("rule")), None) or "one op script per explored transition of the implementation-shaped TLA+ model (prefix-deduplicated) "
                "plus seeded random scripts; each is executed on the real code and the recorded trace is validated "
                "by TLC against the property-level specification; distinct = distinct scripts",
        "exhaustive": False,
        "suites": [{k: r.get(k) for k in ("suite", "kind", "params", "mc", "tlc_scripts", "n_scripts", "n_events",
                                          "wall_s", "cache_hit", "extra", "drift")} for r in results],
    }
    if states > 0 and trans > 0:
        cov["states"] = states
        cov["transitions"] = trans
    else:
        cov["explanation"] = ("no TLC state-space exploration is part of this check; TLC is used as the trace validator: "
                              "it evaluated the property-level TLA+ specification on every recorded event")
    if level == "translation_validation":
        cov["programs"] = sum(r.get("extra", {}).get("type_definitions", 0) + r.get("extra", {}).get("component_derives", 0) for r in results) or 1
        cov["disagreements_checked"] = nev
    ev = {
        "property_id": prop, "tier": tier, "seed": seed, "level": level, "coverage": cov,
        "assumptions": [
            "TLC 1.8 evaluates the TLA+ specifications correctly",
            "the harness records what the real code returned without interpreting it",
            "small-scope bounds as listed under coverage.suites[].params",
        ],
        "wall_s": round(time.time() - t0, 1),
        "violations": len(viols),
        "known_findings_seen": [f.get("id") for f, _ in known_hits],
    }
    C.write_evidence(prop, ev)
    for r in results:
        d = r.get("drift")
        if isinstance(d, dict) and d.get("drifted"):
            print("DRIFT property=%s suite=%s: the code deviates from the implementation-shaped model on %s of %s replayed scripts "
                  "(not a property violation; the model needs updating)" % (prop, r.get("suite"), d.get("drifted"), d.get("scripts")))
    for f, v in known_hits[:1]:
        print("KNOWN-FINDING: property=%s %s" % (prop, f.get("what", f.get("id"))))
    if viols:
        v = viols[0]
        path = C.write_replay(prop, {"property": prop, "tier": tier, "seed": seed, "violation": v,
                                     "others": [{k: x.get(k) for k in ("tid", "m", "d", "suite")} for x in viols[1:20]]})
        for x in viols[:5]:
            print("  violation: suite=%s tid=%s line=%s %s %s" % (x.get("suite"), x.get("tid"), x.get("line"), x.get("m"), x.get("d")[:300]))
        print("VIOLATION property=%s replay=%s" % (prop, path))
        return 1
    print("OK property=%s tier=%s scripts=%d events=%d states=%d wall=%.0fs" % (prop, tier, ntr, nev, states, time.time() - t0))
    return 0
