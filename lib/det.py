"""Determinism (C20): the single-threaded op scripts of the world, store,
join, change-set and save/load domains are each executed twice in one process
(two fresh worlds: different per-instance hash seeds) and again in a second
process (different process-wide hash seeds and address layout).  The
transcripts - every result, handle, join order, event stream and the
serialised data - are paired and Det_Trace.tla steps through them in
lock-step."""
import json
import os
import random

from . import common as C
from . import worldgen as G


def split_runs(path, domain):
    """list of (tid, [lines]) in file order"""
    runs = []
    cur = None
    with open(path) as f:
        for line in f:
            line = line.rstrip("\n")
            if not line:
                continue
            if domain in ("world", "sl"):
                if line.startswith('{"cfg"') or '"op":"Reset"' in line[-40:] or line.startswith('{"op":"Reset"'):
                    e = json.loads(line)
                    if e.get("op") == "Reset":
                        tid = e["cfg"]["tid"] if "cfg" in e else e["tid"]
                        cur = (tid, [])
                        runs.append(cur)
                if cur is not None:
                    cur[1].append(line)
            else:
                e = json.loads(line)
                runs.append((e["tid"], [line]))
    return runs


def scripts_for(tier, seed):
    rng = random.Random(seed * 911)
    q = tier == "quick"
    out = {}
    out["world"] = (G.random_scripts(seed, 60 if q else 600, 120, [1, 2, 3], 81000000, profile="mixed", sweep="full")
                    + G.random_scripts(seed + 1, 40 if q else 400, 100, [1, 2], 81100000, profile="store", sweep="full", far=1)
                    + G.kind_churn_scripts(seed, 3 if q else 25, 120, 81200000)
                    # caught destructor panics (also inside queued lazy actions) must not leave anything behind
                    # that a later world could see; kinds whose destruction order is a function of the history
                    # (not at teardown: the order in which a dying world drops its resources is that of shred's
                    # hash map and not part of the history)
                    + [dict(s, fault_teardown=0) for s in
                       G.fault_scripts(seed, 60 if q else 600, 81300000,
                                       kinds=[k for k in G.KINDS if "hash" not in k and not k.startswith("p")])])
    from . import saveload, joins, cs
    # (UuidMarker: marking draws a random id by design; scripts that only load / retrieve given ids - among
    # them the nil uuid - and save are a function of the history and are compared as well)
    def replayable(s):
        if s["marker"] == "simple":
            return True
        return not any(o["o"] in ("mark", "create_marked", "lcreate_marked") or (o["o"] == "save" and o.get("rec")) for o in s["ops"])
    sl = [s for s in saveload.content_scripts(tier, rng, 82000000) + saveload.random_scripts(tier, rng, 82500000, 100 if q else 1500)
          if replayable(s)]
    for i in range(20 if q else 200):
        ids = rng.sample(range(0, 9), rng.randint(2, 5))
        if i % 2 == 0 and 0 not in ids:
            ids[0] = 0
        recs = [{"m": m, "a": 40 + m, "b": None, "r": rng.choice([None, [rng.choice(ids)]])} for m in ids]
        ops = [{"o": "loadsynth", "w": 0, "recs": recs, "fmt": "json"}, {"o": "retrieve", "w": 0, "m": rng.choice(ids)},
               {"o": "retrieve", "w": 0, "m": 11}, {"o": "save", "w": 0, "rec": False, "fmt": "json"},
               {"o": "load", "w": 1, "blob": 0}, {"o": "save", "w": 1, "rec": False, "fmt": "ron"}]
        sl.append({"tid": 82800000 + i, "marker": "uuid", "worlds": 2, "ops": ops})
    # several live entities carrying a copy of one marker id (inserted by hand), allocator maintenance, then
    # lookups and loads by that id: which entity wins must not depend on hash seeds
    for i in range(40 if q else 400):
        k = rng.randint(3, 16)
        ops = [{"o": "create", "w": 0, "a": i, "b": None} for _ in range(k)]
        # (several distinct ids, some of them carried by more than one entity)
        nm = 1 if i % 3 == 0 else min(k - 1, rng.randint(2, 6))
        for j in range(nm):
            ops.append({"o": "mark", "w": 0, "h": j})
        for j in range(nm, k):
            if rng.random() < 0.8:
                ops.append({"o": "copymark", "w": 0, "h": rng.randrange(nm), "to": j})
        ops.append({"o": "save", "w": 0, "rec": False, "fmt": "ron"})
        ops.append({"o": "amaintain", "w": 0})
        for m in range(nm):
            ops.append({"o": "resolve", "w": 0, "m": m})
        ops.append({"o": "loadsynth", "w": 0, "recs": [{"m": 0, "a": 7, "b": None, "r": None}], "fmt": "json"})
        ops.append({"o": "save", "w": 0, "rec": False, "fmt": "json"})
        sl.append({"tid": 82900000 + i, "marker": "simple", "worlds": 1, "ops": ops})
    out["sl"] = sl
    js = [s for s in joins.gen_scripts(seed, tier, False)]
    rng.shuffle(js)
    out["join"] = js[: 600 if q else 8000]
    # change sets: random pair streams
    css = []
    for i in range(150 if q else 2000):
        ids = rng.sample(cs.FAR, rng.randint(1, 5))
        n = rng.randint(1, 50)
        ps = [[rng.choice(ids), k + 1] for k in range(n)]
        css.append({"tid": 84000000 + i, "pairs": ps, "how": rng.choice(cs.segmentations(n, rng, 3)),
                    "store_ids": [x for x in cs.FAR if rng.random() < 0.4], "take": rng.choice([-1, 0, 2]), "lend": rng.random() < 0.4,
                    "inexact": rng.random() < 0.5, "dead": rng.choice([0, 3, 70]), "two": rng.random() < 0.6})
    out["cs"] = css
    return out


def check(prop, tier, seed):
    params = {"tier": tier, "processes": 2 if tier == "quick" else 4}
    key = C.suite_key("det", params, seed, tier)
    hit = C.cache_get(key)
    if hit is not None:
        hit["cache_hit"] = True
        return [hit]
    workdir = os.path.join(C.OUT, "work", "%s_%d" % (key, os.getpid()))
    C.sh(["rm", "-rf", workdir])
    os.makedirs(workdir)
    doms = scripts_for(tier, seed)
    pairs_path = os.path.join(workdir, "pairs.ndjson")
    npairs = 0
    nscripts = 0
    nhash = 0
    bytid = {}
    crashed = []
    with open(pairs_path, "w") as pf:
        for dom, scripts in doms.items():
            for s in scripts:
                bytid[s["tid"]] = (dom, s)
            sp = os.path.join(workdir, dom + ".scripts")
            with open(sp, "w") as f:
                for s in scripts:
                    line = json.dumps(s, separators=(",", ":"))
                    f.write(line + "\n" + line + "\n")        # every script twice in the same process
            # the further processes run the scripts in the opposite order: what a world does must not
            # depend on which worlds lived in the process before it
            spr = os.path.join(workdir, dom + ".scripts_rev")
            with open(spr, "w") as f:
                for s in reversed(scripts):
                    line = json.dumps(s, separators=(",", ":"))
                    f.write(line + "\n" + line + "\n")
            traces = []
            for p in range(params["processes"]):
                tp = os.path.join(workdir, "%s.t%d" % (dom, p))
                r = C.sh([C.BIN, dom, sp if p == 0 else spr, tp], timeout=1500, env={"VERIF_PROC": str(p)})
                C.sanitize(tp)
                if r.returncode != 0:
                    # the code under test brought the process down while a script was replayed
                    # (every script runs to completion in the other checks' single runs)
                    cur = None
                    try:
                        cur = json.load(open(tp + ".cur"))
                    except Exception:
                        pass
                    crashed.append({"tid": cur if cur is not None else scripts[0]["tid"], "line": 0, "p": "*",
                                    "m": "the implementation crashed the process while a script was replayed (run %d of the %s scripts)" % (p, dom),
                                    "d": "exit status %d; %s" % (r.returncode, r.stdout[-300:].replace("\n", " "))})
                    break
                traces.append(split_runs(tp, dom))
            if crashed:
                break
            nscripts += len(scripts)
            base = traces[0]
            if len(base) != 2 * len(scripts):
                raise C.ToolError("determinism: %s produced %d runs for %d scripts" % (dom, len(base), len(scripts)))
            for i in range(0, len(base), 2):
                tid, a = base[i]
                _, b = base[i + 1]
                pf.write(json.dumps({"tid": tid, "kind": "same", "a": a, "b": b}) + "\n")
                npairs += 1
                if any(k in a[0] for k in ("hash", "btree")) or dom != "world":
                    nhash += 1
                for p in range(1, len(traces)):
                    j = len(traces[p]) - 2 - i          # reversed order there
                    if 0 <= j < len(traces[p]) and traces[p][j][0] == tid:
                        pf.write(json.dumps({"tid": tid, "kind": "cross", "a": a, "b": traces[p][j][1]}) + "\n")
                        npairs += 1
    # TLC validates the pairs (split into chunks)
    lines = open(pairs_path).read().splitlines()
    nch = min(C.NCPU - 2, max(1, len(lines) // 200))
    viol = []
    nev = 0

    def work(k):
        cp = os.path.join(workdir, "pairs%02d.ndjson" % k)
        with open(cp, "w") as f:
            for ln in lines[k::nch]:
                f.write(ln + "\n")
        return C.validate_trace(cp, "Det_Trace.tla", "Det_Trace.cfg")

    from concurrent.futures import ThreadPoolExecutor
    with ThreadPoolExecutor(max_workers=nch) as ex:
        for n, v in ex.map(work, range(nch)):
            nev += n
            viol.extend(v)
    res = {"suite": "determinism", "kind": "two runs in one process + fresh processes", "params": params, "cache_hit": False,
           "n_scripts": nscripts, "n_events": nev, "distinct": nhash,
           "extra": {"transcript_pairs": npairs, "scripts_with_hash_backed_storage_or_serialisation": nhash}}
    res["rule"] = "each script is run twice in one process and once more in every further process; every pair of transcripts is stepped through in lock-step by Det_Trace.tla; distinct_nontrivial = scripts that involve a hash-backed storage, a join or serialised output"
    out, seen = [], set()
    viol = crashed + viol
    for v in viol:
        if v["tid"] in seen:
            continue
        seen.add(v["tid"])
        ent = {"p": v.get("p", "C20") if v.get("p") == "*" else "C20", "tid": v["tid"], "m": v["m"], "d": v["d"][:2500], "line": v["line"]}
        if len(out) < 6:
            ent["script"] = bytid.get(v["tid"], (None, None))[1]
        out.append(ent)
    res["viol"] = out
    res["samples"] = [doms["world"][0], doms["sl"][0]]
    for s in res["samples"]:
        if len(s.get("ops", [])) > 10:
            s["ops"] = s["ops"][:10] + [{"o": "..."}]
    C.sh(["rm", "-rf", workdir])
    C.cache_put(key, res)
    return [res]
