"""World domain (C01 C02 C03 C05 C09 C17, world part of C08): suites of op
scripts - emitted by TLC from World_MC (one per explored transition) or drawn
by the seeded random driver - replayed on the real code and validated by TLC
against World_L0."""
import json
import os

from . import common as C
from . import worldgen as G

MODULE = "World_Trace.tla"
CFG = "World_Trace.cfg"


def mc_cfg(MaxIdx, S, MaxH, MaxOps, MaxC, MaxGen, fams, emit=True, fix=True, invs=("NoViol", "StructInv", "RecycleInv")):
    return """SPECIFICATION MCSpec
CONSTANTS
  MaxIdx = %d
  S = %d
  FixKill = %s
  MaxH = %d
  MaxOps = %d
  MaxC = %d
  MaxGen = %d
  Fams = {%s}
  Emit = %s
CONSTRAINT Bound
VIEW View
%s
CHECK_DEADLOCK FALSE
""" % (MaxIdx, S, "TRUE" if fix else "FALSE", MaxH, MaxOps, MaxC, MaxGen,
       ", ".join('"%s"' % f for f in fams), "TRUE" if emit else "FALSE",
       "\n".join("INVARIANT " + i for i in invs))


# suite definitions: name -> (kind, params) per tier
SUITES = {
    "quick": {
        # allocator only: every history of <= 6 ops over 3 indices
        "mc_alloc": ("mc", dict(MaxIdx=3, S=0, MaxH=5, MaxOps=6, MaxC=0, MaxGen=3, fams=["alloc", "defer", "batch"])),
        # one storage, stale handles through every access class
        "mc_store": ("mc", dict(MaxIdx=2, S=1, MaxH=3, MaxOps=5, MaxC=3, MaxGen=3, fams=["alloc", "defer", "store"])),
        # lazy queue
        "mc_lazy": ("mc", dict(MaxIdx=2, S=1, MaxH=3, MaxOps=4, MaxC=2, MaxGen=2, fams=["alloc", "defer", "lazy", "exec"])),
        "rand_mixed": ("rand", dict(n=60, n_ops=120, S=[1, 2, 3], profile="mixed", sweep="full")),
        "rand_churn": ("rand", dict(n=16, n_ops=1200, S=[0, 1], profile="churn", sweep="light", max_live=12)),
        # generations in the hundreds on one index, batches of hundreds of entities
        "gen_churn": ("genchurn", dict(n=12)),
        # more than a hundred lazy actions (some queuing further ones) applied by one maintain
        "lazy_flood": ("lazyflood", dict(n=10)),
    },
    "thorough": {
        "mc_alloc": ("mc", dict(MaxIdx=3, S=0, MaxH=6, MaxOps=8, MaxC=0, MaxGen=3, fams=["alloc", "defer", "batch"])),
        "mc_store": ("mc", dict(MaxIdx=2, S=1, MaxH=3, MaxOps=6, MaxC=3, MaxGen=3, fams=["alloc", "defer", "store"])),
        "mc_store2": ("mc", dict(MaxIdx=2, S=2, MaxH=3, MaxOps=5, MaxC=3, MaxGen=2, fams=["alloc", "batch", "store"])),
        "mc_lazy": ("mc", dict(MaxIdx=2, S=1, MaxH=3, MaxOps=5, MaxC=2, MaxGen=2, fams=["alloc", "defer", "lazy", "exec"])),
        "rand_mixed": ("rand", dict(n=600, n_ops=200, S=[1, 2, 3], profile="mixed", sweep="full")),
        "rand_churn": ("rand", dict(n=64, n_ops=4000, S=[0, 1], profile="churn", sweep="light", max_live=16)),
        "gen_churn": ("genchurn", dict(n=90)),
        "lazy_flood": ("lazyflood", dict(n=80)),
    },
}

# which suites decide which property
PROP_SUITES = {
    "C01": ["mc_alloc", "mc_store2", "rand_mixed", "rand_churn", "gen_churn"],
    "C02": ["mc_alloc", "mc_store2", "rand_mixed", "rand_churn", "gen_churn"],
    "C17": ["mc_alloc", "rand_mixed", "rand_churn", "gen_churn"],
    "C05": ["mc_store", "mc_store2", "mc_lazy", "rand_mixed", "gen_churn"],
    "C03": ["mc_store", "mc_store2", "rand_mixed", "gen_churn"],
    "C09": ["mc_lazy", "rand_mixed", "lazy_flood"],
}


def pack_viol(rviol, scripts):
    """attach the script + trace of each violating script (first few per property)"""
    bytid = {s["tid"]: s for s in scripts}
    viol = []
    seen = {}
    for v in sorted(rviol, key=lambda x: (x["p"], x["tid"], x["line"])):
        k = (v["p"], v["tid"])
        if k in seen:
            seen[k]["more"] = seen[k].get("more", 0) + 1
            continue
        nper = sum(1 for q in seen if q[0] == v["p"])
        ent = {"p": v["p"], "tid": v["tid"], "m": v["m"], "d": v["d"], "line": v["line"]}
        if nper < 5:
            ent["script"] = bytid.get(v["tid"])
            ent["trace"] = C.extract_trace(v["trace_file"], v["tid"])[:400] if v["p"] != "*" else []
        seen[k] = ent
        viol.append(ent)
    return viol


def samples_of(scripts):
    import copy
    out = [copy.deepcopy(scripts[i]) for i in (0, len(scripts) // 2) if i < len(scripts)]
    for s in out:
        if len(s.get("ops", [])) > 12:
            s["ops"] = s["ops"][:12] + [{"o": "... (%d more ops)" % (len(s["ops"]) - 12)}]
    return out


def drift_check(tlc_scripts, p, workdir, limit=3000):
    """impl -> L1: TLC re-executes the emitted scripts on World_L1 and compares handles, results,
    aliveness, joins and masks with what the real code recorded (informational, never an alarm)"""
    import json
    orig = G.dedupe_prefixes(tlc_scripts)
    if len(orig) > limit:       # an even sample over the whole list (short and long scripts)
        step = len(orig) / float(limit)
        orig = [orig[int(i * step)] for i in range(limit)]
    hs = G.from_tlc(orig, p["S"], 900000000, variants=1, kinds=["vec", "dense", "hash", "btree"])
    os.makedirs(workdir, exist_ok=True)
    sp = os.path.join(workdir, "drift_scripts.ndjson")
    hp = os.path.join(workdir, "drift_harness.ndjson")
    tp = os.path.join(workdir, "drift_trace.ndjson")
    with open(sp, "w") as f:
        for o, h in zip(orig, hs):
            f.write(json.dumps({"tid": h["tid"], "ops": o}) + "\n")
    with open(hp, "w") as f:
        for h in hs:
            f.write(json.dumps(h) + "\n")
    r = C.sh([C.BIN, "world", hp, tp], timeout=600)
    if r.returncode != 0:
        return {"error": "harness exit %d" % r.returncode}
    cfg = os.path.join(workdir, "drift.cfg")
    C.write_cfg(cfg, "SPECIFICATION DSpec\nCONSTANTS\n  MaxIdx = %d\n  S = %d\n  FixKill = TRUE\nINVARIANT Verdict\nCHECK_DEADLOCK FALSE\n"
                % (p["MaxIdx"], p["S"]))
    t = C.run_tlc("World_Drift.tla", cfg, workers=1, timeout=600, env={"SCRIPTS": sp, "TRACE": tp}, deque=True, xmx="3g")
    d = C.parse_printed(t.stdout, "DRIFT")
    if not d:
        return {"error": t.stdout[-300:]}
    return d[-1]


def run_suite(name, tier, seed):
    kind, params = SUITES[tier][name]
    key = C.suite_key("world-" + name, params, seed, tier)
    hit = C.cache_get(key)
    if hit is not None:
        hit["cache_hit"] = True
        return hit
    workdir = os.path.join(C.OUT, "work", "%s_%d" % (key, os.getpid()))
    C.sh(["rm", "-rf", workdir])
    os.makedirs(workdir, exist_ok=True)
    res = {"suite": name, "kind": kind, "params": params, "cache_hit": False}
    tid0 = {"mc_alloc": 1000000, "mc_store": 2000000, "mc_store2": 3000000, "mc_lazy": 4000000,
            "rand_mixed": 5000000, "rand_churn": 6000000, "gen_churn": 7000000, "lazy_flood": 8000000}.get(name, 9000000)
    if kind == "mc":
        p = dict(params)
        variants = p.pop("variants", 1)
        st, tlc_scripts = C.model_check("World_MC.tla", mc_cfg(**p), "world_" + name + "_" + tier, workers=8)
        res["mc"] = st
        scripts = G.from_tlc(tlc_scripts, p["S"], tid0, variants=variants)
        res["tlc_scripts"] = len(tlc_scripts)
    elif kind == "genchurn":
        scripts = G.gen_churn_scripts(seed, params["n"], tid0)
    elif kind == "lazyflood":
        scripts = G.lazy_flood_scripts(seed, params["n"], tid0)
    else:
        scripts = G.random_scripts(seed, params["n"], params["n_ops"], params["S"], tid0,
                                   profile=params["profile"], sweep=params["sweep"],
                                   max_live=params.get("max_live", 14))
    r = C.exec_and_validate("world", scripts, workdir, MODULE, CFG)
    res.update(n_scripts=r["n_scripts"], n_events=r["n_events"], wall_s=r["wall_s"])
    if kind == "mc":
        try:
            res["drift"] = drift_check(tlc_scripts, p, workdir)
        except C.ToolError as e:
            res["drift"] = {"error": str(e)[-300:]}
    res["viol"] = pack_viol(r["viol"], scripts)
    res["samples"] = samples_of(scripts)
    C.sh(["rm", "-rf", workdir])
    C.cache_put(key, res)
    return res


def inductive(tier):
    """Design-level, unbounded: Alloc_Ind.tla's invariant is inductive (Apalache; arbitrary
    integers as generations, histories of any length, N indices) and implies C01 / C17 for
    the allocator design; TLC re-checks the same invariant on a bounded instance."""
    n = 4 if tier == "quick" else 8
    return C.inductive_suite("alloc_inductive", "Alloc_Ind", tier, {"N": n}, "N = %d" % n,
                             "CONSTANT N = 3\nCONSTRAINT Bound", extra_defs="Bound == \\A i \\in Idx : gen[i] \\in -3..3",
                             tlc_note="3 indices, |generation| <= 3", safe="Safe")


def check(prop, tier, seed):
    suites = [s for s in PROP_SUITES[prop] if s in SUITES[tier]]
    thunks = [(lambda s=s: run_suite(s, tier, seed)) for s in suites]
    if prop in ("C01", "C17"):
        thunks.append(lambda: inductive(tier))
        # under shared access from several threads: handles stay distinct (C01), recycled indices are
        # preferred to never-used ones (C17) - facts of the concurrency traces charged to these properties
        from . import conc
        thunks.append(lambda: conc.check(prop, tier, seed))
    if prop == "C05":
        # what a purge leaves behind inside a storage (dense view after deletions): random store histories
        from . import store
        thunks.append(lambda: store.run_suite("rand_store", tier, seed))
    if prop == "C09":
        # marking through a lazy builder is deferred work too (save/load traces)
        from . import saveload
        thunks.append(lambda: saveload.traces("C09", tier, seed))
    if prop == "C02":
        # builders dropped while a caught panic unwinds (fault traces): the deferred deletion they ask for
        from . import fault
        thunks.append(lambda: fault.check("C02", tier, seed)[:1])
    if prop == "C01":
        # creation during deserialisation: the save/load traces charge reused handles to C01
        from . import saveload
        thunks.append(lambda: saveload.check("C01", tier, seed))
    return C.run_until_violation(prop, thunks)
