"""./check <id> --replay <file>: re-execute the failing script of a replay file
on the current tree and have TLC validate the new trace."""
import json
import os

from . import common as C

DOMAINS = {
    # suite name prefix -> (harness domain, trace module, cfg)
    "mc_": ("world", "World_Trace.tla", "World_Trace.cfg"),
    "rand_": ("world", "World_Trace.tla", "World_Trace.cfg"),
    "smc_": ("world", "World_Trace.tla", "World_Trace.cfg"),
    "kind_churn": ("world", "World_Trace.tla", "World_Trace.cfg"),
    "fault": ("world", "World_Trace.tla", "World_Trace.cfg"),
    "join_": ("join", "Join_Trace.tla", "Join_Trace.cfg"),
    "changeset": ("cs", "ChangeSet_Trace.tla", "ChangeSet_Trace.cfg"),
    "conc": ("conc", "Conc_Trace.tla", "Conc_Trace.cfg"),
    "dispatch": ("dispatch", "Dispatch_Trace.tla", "Dispatch_Trace.cfg"),
    "saveload": ("sl", "SaveLoad_Trace.tla", "SaveLoad_Trace.cfg"),
}


def replay(prop, path):
    with open(path) as f:
        r = json.load(f)
    v = r.get("violation", {})
    script = v.get("script")
    suite = v.get("suite", "")
    dom = next((d for k, d in DOMAINS.items() if suite.startswith(k)), None)
    if script is None or dom is None:
        print("replay: this replay file carries no re-executable script (suite %s); re-run the check instead" % suite)
        return 2
    workdir = os.path.join(C.OUT, "work", "replay_%d" % os.getpid())
    res = C.exec_and_validate(dom[0], [script], workdir, dom[1], dom[2])
    C.sh(["rm", "-rf", workdir])
    mine = [x for x in res["viol"] if x["p"] in (prop, "*")]
    for x in mine[:10]:
        print("  violation: line=%s %s %s" % (x.get("line"), x.get("m"), str(x.get("d"))[:400]))
    if mine:
        print("VIOLATION property=%s replay=%s" % (prop, path))
        return 1
    print("OK property=%s replayed script tid=%s: no violation on the current tree" % (prop, script.get("tid")))
    return 0
