"""Store domain (C04 C08 C12 C13): Store_MC scripts per storage kind and
wrapper (one per explored transition of Store_L1) plus seeded random scripts
with whole-storage operations, replayed on the real storages (real entities,
also at far-apart indices) and validated by TLC against World_L0."""
import os

from . import common as C
from . import worldgen as G
from . import world as W

MODULE = "World_Trace.tla"
CFG = "World_Trace.cfg"


def smc_cfg(ids, kind, trk, MaxOps, MaxC, emit=True, faults=False):
    return """SPECIFICATION MCSpec
CONSTANTS
  Ids = {%s}
  Kind = "%s"
  Trk = "%s"
  MaxOps = %d
  MaxC = %d
  Emit = %s
  Faults = %s
CONSTRAINT Bound
VIEW View
INVARIANT NoViol
INVARIANT StructInv
CHECK_DEADLOCK FALSE
""" % (", ".join(str(i) for i in ids), kind, trk, MaxOps, MaxC, "TRUE" if emit else "FALSE", "TRUE" if faults else "FALSE")


HARNESS_KINDS = {"vec": ["vec", "p_vec"], "dense": ["dense", "p_dense"], "defvec": ["defvec", "p_defvec"], "map": ["hash", "btree", "p_hash", "p_btree"], "null": ["null"]}
PREFIX = {"none": "", "flagged": "f_", "deref": "d_"}


def conv(tlc_script, ids, i):
    ids = sorted(ids)
    pos = {v: k for k, v in enumerate(ids)}
    ops = [{"o": "prealloc", "n": ids[-1] + 1, "keep": ids}]
    rot = i * 5
    for o in tlc_script:
        rot += 1
        k = o["o"]
        if k == "get":
            ps = G.PATHS["read"]
            ops.append({"o": "sop", "path": ps[rot % len(ps)], "s": 0, "h": pos[o["i"]]})
        elif k == "get_mut":
            ps = G.PATHS["write"]
            ops.append({"o": "sop", "path": ps[rot % len(ps)], "s": 0, "h": pos[o["i"]], "w": bool(o["w"])})
        elif k == "insert":
            ps = G.PATHS["insert"]
            ops.append({"o": "sop", "path": ps[rot % len(ps)], "s": 0, "h": pos[o["i"]]})
        elif k == "remove":
            ps = G.PATHS["remove"]
            ops.append({"o": "sop", "path": ps[rot % len(ps)], "s": 0, "h": pos[o["i"]]})
        elif k in ("clear", "count"):
            ops.append({"o": "wop", "k": k, "s": 0})
        elif k == "drain":
            ops.append({"o": "wop", "k": "drain", "s": 0, "n": o["n"]})
        elif k == "joinmut":
            m = 0
            for x in o["sel"]:
                m |= 1 << (x - 1)
            ops.append({"o": "wop", "k": "joinmut", "s": 0, "v": ["join", "lend", "par"][rot % 3], "sel": 0xffff, "wsel": m})
        elif k == "setemit":
            ops.append({"o": "wop", "k": "setemit", "s": 0, "b": bool(o["b"])})
        elif k == "slice":
            ops.append({"o": "wop", "k": "slice", "s": 0})
        elif k == "restrict":
            fm = wm = 0
            for x in o["fm"]:
                fm |= 1 << (x - 1)
            for x in o["wr"]:
                wm |= 1 << (x - 1)
            ops.append({"o": "wop", "k": "restrict", "s": 0, "v": ["mut_join", "mut_lend", "mut_par"][rot % 3], "sel": fm, "wsel": wm})
        elif k == "clear_f":
            ops.append({"o": "fault", "k": o["k"], "op": {"o": "wop", "k": "clear", "s": 0}})
        elif k == "delete_f":
            ops.append({"o": "fault", "k": 1, "op": {"o": "delete", "h": pos[o["i"]]}})
        # "teardown": the harness drops the world at the end of every script
    return ops


KINDS5 = ["vec", "dense", "defvec", "map", "null"]

SUITES = {
    "quick": {
        "smc_plain": ("smc", dict(ids=[0, 1, 2], kinds=KINDS5, trks=["none"], MaxOps=5, MaxC=3)),
        "smc_tracked": ("smc", dict(ids=[0, 1, 2], kinds=["vec", "dense", "null"], trks=["flagged", "deref"], MaxOps=4, MaxC=3)),
        "smc_far": ("smc", dict(ids=[1, 63, 64], kinds=["vec", "dense", "defvec"], trks=["none"], MaxOps=4, MaxC=3)),
        "smc_fault": ("smc", dict(ids=[0, 1, 2], kinds=KINDS5, trks=["none"], MaxOps=4, MaxC=3, faults=True)),
        "rand_store": ("rand", dict(n=120, n_ops=100, S=[1, 2], profile="store", sweep="full", far=1, kinds=G.KINDS)),
        "rand_tracked": ("rand", dict(n=120, n_ops=100, S=[1, 2], profile="store", sweep="full", far=1,
                                      kinds=[k for k in G.KINDS if k[:2] in ("f_", "d_")])),
        "kind_churn": ("kchurn", dict(per_kind=8, n_ops=150, far=True)),
        "rand_world_tracked": ("rand", dict(n=40, n_ops=120, S=[1, 2], profile="mixed", sweep="full",
                                            kinds=[k for k in G.KINDS if k[:2] in ("f_", "d_")])),
    },
    "thorough": {
        "smc_plain": ("smc", dict(ids=[0, 1, 2], kinds=KINDS5, trks=["none"], MaxOps=7, MaxC=4)),
        "smc_tracked": ("smc", dict(ids=[0, 1, 2], kinds=KINDS5, trks=["flagged", "deref"], MaxOps=5, MaxC=3)),
        "smc_far": ("smc", dict(ids=[1, 63, 64], kinds=KINDS5, trks=["none", "flagged"], MaxOps=5, MaxC=3)),
        "smc_fault": ("smc", dict(ids=[0, 1, 2], kinds=KINDS5, trks=["none", "flagged"], MaxOps=5, MaxC=3, faults=True)),
        "rand_store": ("rand", dict(n=1500, n_ops=150, S=[1, 2], profile="store", sweep="full", far=2, kinds=G.KINDS)),
        "rand_tracked": ("rand", dict(n=1000, n_ops=150, S=[1, 2], profile="store", sweep="full", far=1,
                                      kinds=[k for k in G.KINDS if k[:2] in ("f_", "d_")])),
        "kind_churn": ("kchurn", dict(per_kind=60, n_ops=300, far=True)),
        "rand_world_tracked": ("rand", dict(n=400, n_ops=200, S=[1, 2], profile="mixed", sweep="full",
                                            kinds=[k for k in G.KINDS if k[:2] in ("f_", "d_")])),
    },
}

PROP_SUITES = {
    "C04": ["smc_plain", "smc_far", "smc_tracked", "kind_churn", "rand_store"],
    "C08": ["smc_plain", "smc_far", "kind_churn", "rand_store", "rand_tracked", "world:rand_mixed"],
    "C12": ["smc_tracked", "kind_churn", "rand_tracked", "rand_world_tracked"],
    "C13": ["smc_plain", "rand_store", "rand_tracked", "kind_churn", "world:mc_store"],
}

TID0 = {"smc_plain": 11000000, "smc_tracked": 12000000, "smc_far": 13000000, "rand_store": 14000000,
        "rand_tracked": 15000000, "rand_world_tracked": 16000000, "kind_churn": 17000000, "smc_fault": 18000000}


def run_suite(name, tier, seed):
    if name.startswith("world:"):
        return W.run_suite(name[6:], tier, seed)
    kind, params = SUITES[tier][name]
    key = C.suite_key("store-" + name, params, seed, tier)
    hit = C.cache_get(key)
    if hit is not None:
        hit["cache_hit"] = True
        return hit
    workdir = os.path.join(C.OUT, "work", "%s_%d" % (key, os.getpid()))
    C.sh(["rm", "-rf", workdir])
    os.makedirs(workdir, exist_ok=True)
    res = {"suite": name, "kind": kind, "params": params, "cache_hit": False}
    tid = TID0[name]
    scripts = []
    if kind == "smc":
        mc = {"states": 0, "transitions": 0, "runs": []}
        ntlc = 0
        drift_src = []
        for k in params["kinds"]:
            for t in params["trks"]:
                st, tl = C.model_check("Store_MC.tla", smc_cfg(params["ids"], k, t, params["MaxOps"], params["MaxC"], faults=params.get("faults", False)),
                                       "store_%s_%s_%s_%s" % (name, k, t, tier), workers=8)
                mc["states"] += st.get("states", 0)
                mc["transitions"] += st.get("transitions", 0)
                mc["runs"].append({"kind": k, "trk": t, "states": st.get("states"), "transitions": st.get("transitions"), "depth": st.get("depth")})
                ntlc += len(tl)
                if not params.get("faults", False):
                    drift_src.append((k, t, G.dedupe_prefixes(tl)))
                hk = [PREFIX[t] + x for x in HARNESS_KINDS[k] if t == "none" or not x.startswith("p_")]
                if k == "map" and t == "flagged":
                    hk.append("pf_hash")
                for i, sc in enumerate(G.dedupe_prefixes(tl)):
                    scripts.append({"tid": tid, "cfg": {"kinds": [hk[i % len(hk)]], "reg": [G.REGS[i % len(G.REGS)]]},
                                    "ops": conv(sc, params["ids"], i), "sweep": "full"})
                    tid += 1
        res["mc"] = mc
        res["tlc_scripts"] = ntlc
        res["_drift_src"] = drift_src
    elif kind == "kchurn":
        scripts = G.kind_churn_scripts(seed, params["per_kind"], params["n_ops"], tid, far=params.get("far", False))
    else:
        scripts = G.random_scripts(seed, params["n"], params["n_ops"], params["S"], tid, profile=params["profile"],
                                   sweep=params["sweep"], kinds=params.get("kinds"), far=params.get("far", 0))
    r = C.exec_and_validate("world", scripts, workdir, MODULE, CFG)
    res.update(n_scripts=r["n_scripts"], n_events=r["n_events"], wall_s=r["wall_s"])
    res["viol"] = W.pack_viol(r["viol"], scripts)
    res["samples"] = W.samples_of(scripts)
    src = res.pop("_drift_src", None)
    if src:
        try:
            res["drift"] = store_drift(src, params["ids"], workdir)
        except C.ToolError as e:
            res["drift"] = {"error": str(e)[-300:]}
    C.sh(["rm", "-rf", workdir])
    C.cache_put(key, res)
    return res


def store_drift(src, ids, workdir, per_combo=400):
    """impl -> L1: TLC re-executes histories emitted from Store_MC on Store_L1 and compares masks, present
    lookups, counts, join / drain members, event kinds and the owner of every slot of the raw slot views
    (i.e. the dense layout) with what the real code recorded (informational, never an alarm)"""
    import json
    tot = {"scripts": 0, "drifted": 0, "first": []}
    for ci, (k, t, hists) in enumerate(src):
        def sample(xs, n):
            if len(xs) <= n:
                return list(xs)
            step = len(xs) / float(n)
            return [xs[int(i * step)] for i in range(n)]
        # the histories that end in a look at the raw slot view say most about the layout
        views = [h for h in hists if h and h[-1].get("o") == "slice" and any(o.get("o") == "remove" for o in h)]
        rest = [h for h in hists if not (h and h[-1].get("o") == "slice")]
        hists = sample(views, per_combo) + sample(rest, per_combo)
        d = os.path.join(workdir, "sdrift%d" % ci)
        os.makedirs(d, exist_ok=True)
        sp, hp, tp = os.path.join(d, "scripts.ndjson"), os.path.join(d, "harness.ndjson"), os.path.join(d, "trace.ndjson")
        hk = PREFIX[t] + HARNESS_KINDS[k][0]
        with open(sp, "w") as f, open(hp, "w") as g:
            for i, h in enumerate(hists):
                tid = 19000000 + ci * 10000 + i
                f.write(json.dumps({"tid": tid, "ops": h}) + "\n")
                g.write(json.dumps({"tid": tid, "cfg": {"kinds": [hk], "reg": ["register"]}, "ops": conv(h, ids, i), "sweep": "full"}) + "\n")
        r = C.sh([C.BIN, "world", hp, tp], timeout=600)
        if r.returncode != 0:
            return {"error": "harness exit %d" % r.returncode}
        cfg = os.path.join(d, "drift.cfg")
        C.write_cfg(cfg, "SPECIFICATION DSpec\nCONSTANTS\n  Ids = {%s}\n  Kind = \"%s\"\n  Trk = \"%s\"\nINVARIANT Verdict\nCHECK_DEADLOCK FALSE\n"
                    % (", ".join(str(i) for i in ids), k, t))
        tl = C.run_tlc("Store_Drift.tla", cfg, workers=1, timeout=600, env={"SCRIPTS": sp, "TRACE": tp}, deque=True, xmx="3g")
        dd = C.parse_printed(tl.stdout, "DRIFT")
        if not dd:
            return {"error": "%s/%s: %s" % (k, t, tl.stdout[-300:])}
        tot["scripts"] += dd[-1]["scripts"]
        tot["drifted"] += dd[-1]["drifted"]
        tot["first"] += [[k, t] + x for x in dd[-1]["first"][:2]]
    tot["first"] = tot["first"][:6]
    return tot


def inductive(tier):
    """Dense_Ind.tla: the dense storage's two tables stay inverse to each other and every lookup returns the
    map's value - inductive invariant (design level, histories of any length)"""
    n = 4 if tier == "quick" else 7
    return C.inductive_suite("dense_inductive", "Dense_Ind", tier, {"N": n}, "N = %d" % n,
                             "CONSTANT N = 3", tlc_note="3 ids", safe="MapLike")


def check(prop, tier, seed):
    thunks = [(lambda s=s: run_suite(s, tier, seed)) for s in PROP_SUITES[prop]]
    if prop == "C04":
        thunks.append(lambda: inductive(tier))
    if prop == "C08":
        from . import cs          # values added to a change set
        thunks.append(lambda: cs.check("C08", tier, seed))
        # a value destroyed twice / shown after its destruction once a destructor has panicked (fault traces)
        from . import fault
        thunks.append(lambda: fault.check("C08", tier, seed)[:1])
    return C.run_until_violation(prop, thunks)
