"""ChangeSet domain (C16): every pair sequence TLC explores on ChangeSet_MC
(and seeded random longer ones over far-apart indices), fed to the real
ChangeSet by collect / extend / add in every segmentation, validated by TLC
against ChangeSet_L0."""
import os
import random

from . import common as C

FAR = [0, 1, 2, 63, 64, 4095, 4096, 262143, 262144]


def mc_cfg(ids, maxpairs, emit=True):
    return """SPECIFICATION MCSpec
CONSTANTS
  Ids = {%s}
  MaxPairs = %d
  Emit = %s
INVARIANT Refines
INVARIANT Struct
CHECK_DEADLOCK FALSE
""" % (", ".join(map(str, ids)), maxpairs, "TRUE" if emit else "FALSE")


def segmentations(n, rng, k):
    """k ways of cutting n pairs into collect / extend / add segments"""
    out = [[{"h": "collect", "n": n}], [{"h": "add", "n": 1}] * n, [{"h": "extend", "n": n}]]
    for _ in range(k):
        segs, left, first = [], n, True
        while left > 0:
            m = rng.randint(1, left)
            h = rng.choice(["collect", "extend", "add"]) if first else rng.choice(["extend", "add"])
            segs.append({"h": h, "n": m})
            left -= m
            first = False
        out.append(segs)
    return out


def check(prop, tier, seed):
    out = traces(prop, tier, seed)
    if prop == "C16":
        from . import store
        out.append(store.inductive(tier))      # the change set is a mask over this dense storage
    return out


def traces(prop, tier, seed):
    params = {"maxpairs": 5 if tier == "quick" else 7, "rand": 300 if tier == "quick" else 5000}
    key = C.suite_key("cs", params, seed, tier)
    hit = C.cache_get(key)
    if hit is not None:
        hit["cache_hit"] = True
        return [hit]
    rng = random.Random(seed * 31 + 7)
    res = {"suite": "changeset", "kind": "mc+rand", "params": params, "cache_hit": False}
    res["rule"] = "every pair sequence explored by TLC on ChangeSet_MC mapped onto near and far-apart indices and several collect/extend/add segmentations, plus random long pair streams (iterators with exact and inexact size hints, handles with live and dead generations); one logged experiment per case checked by TLC against ChangeSet_L0"
    st, tl = C.model_check("ChangeSet_MC.tla", mc_cfg([0, 1, 2], params["maxpairs"]), "cs_" + tier, workers=4)
    res["mc"] = st
    res["tlc_scripts"] = len(tl)
    scripts = []
    tid = 31000000
    idmaps = [[0, 1, 2], [63, 64, 4096], [2, 262143, 262144]]
    for i, pairs in enumerate(tl):
        im = idmaps[i % len(idmaps)]
        ps = [[im[p[0]], p[1]] for p in pairs]
        for segs in segmentations(len(ps), rng, 1)[(i % 3):][:2]:
            scripts.append({"tid": tid, "pairs": ps, "how": segs,
                            "store_ids": [x for x in im if rng.random() < 0.6] + ([5] if rng.random() < 0.3 else []),
                            "take": rng.choice([-1, -1, 0, 1, 2]), "lend": rng.random() < 0.4,
                            "inexact": i % 2 == 1, "dead": [0, 0, 3, 1][i % 4], "two": i % 8 >= 4})
            tid += 1
    for j in range(params["rand"]):
        ids = rng.sample(FAR, rng.randint(1, 5))
        n = rng.randint(1, 60)
        ps = [[rng.choice(ids), k + 1] for k in range(n)]
        sc = {"tid": tid, "pairs": ps, "how": rng.choice(segmentations(n, rng, 3)),
              "store_ids": [x for x in FAR if rng.random() < 0.4],
              "take": rng.choice([-1, -1, 0, 1, 2, 3]), "lend": rng.random() < 0.4,
              "inexact": rng.random() < 0.5, "dead": rng.choice([0, 0, 1, 3, 70]), "two": rng.random() < 0.5}
        if j % 4 == 0:
            sc["fclear"] = rng.choice([1, 1, 2, 3, 9])     # clear() with a panicking destructor (or none: k too large)
        elif j % 4 == 2:
            # an ordinary clear(), then the set is refilled (first-add order not ascending) and consumed
            sc["fclear"] = 1000
            rids = rng.sample(FAR, rng.randint(2, 6))
            sc["refill"] = [[rng.choice(rids), 500 + k] for k in range(rng.randint(2, 14))]
        scripts.append(sc)
        tid += 1
    workdir = os.path.join(C.OUT, "work", "%s_%d" % (key, os.getpid()))
    C.sh(["rm", "-rf", workdir])
    r = C.exec_and_validate("cs", scripts, workdir, "ChangeSet_Trace.tla", "ChangeSet_Trace.cfg", events_per_chunk=2000)
    res.update(n_scripts=r["n_scripts"], n_events=r["n_events"], wall_s=r["wall_s"])
    bytid = {s["tid"]: s for s in scripts}
    viol, seen = [], set()
    for v in sorted(r["viol"], key=lambda x: (x["p"], x["tid"])):
        if (v["p"], v["tid"]) in seen:
            continue
        seen.add((v["p"], v["tid"]))
        ent = {"p": v["p"], "tid": v["tid"], "m": v["m"], "d": v["d"][:3000], "line": v["line"]}
        if len(viol) < 8:
            ent["script"] = bytid.get(v["tid"])
        viol.append(ent)
    res["viol"] = viol
    res["samples"] = [scripts[0], scripts[-1]]
    C.sh(["rm", "-rf", workdir])
    C.cache_put(key, res)
    return [res]
