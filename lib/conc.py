"""Concurrency domain (C10): AllocConc_L1 is model-checked for several small
thread programs (every sequentially consistent interleaving of the atomic
steps); the thread-id sequence of every explored transition is a schedule that
the harness replays on real threads through the cfg(specs_verif) yield-point
hook; free-running stress runs add sampled real schedules.  TLC validates every
logged run against Conc_L0."""
import json
import os
import random

from . import common as C

# (threads' programs, alive ids, free list) - ops refer to initial handles by 1-based index = id + 1
CASES = [
    # two creators racing for one free index, then the counter
    dict(progs=[[["create"], ["create"]], [["create"], ["aliveown"]]], alive=[0], free=[1]),
    # creators + deletion of live, of own and of stale handles whose index is being recycled
    dict(progs=[[["create"], ["delete", 2], ["create"]], [["create"], ["delown"], ["delete", 1]]], alive=[0], free=[1, 2]),
    dict(progs=[[["delete", 2], ["create"], ["delete", 2]], [["create"], ["delete", 3]]], alive=[0], free=[2, 1]),
    # empty free list: both go to the counter
    dict(progs=[[["create"], ["create"]], [["create"], ["delown"]]], alive=[0, 1], free=[]),
    dict(progs=[[["create"], ["delown"]], [["delete", 1], ["create"]], [["create"]]], alive=[0], free=[1]),
]
CASES_THOROUGH = CASES + [
    dict(progs=[[["create"], ["create"], ["delown"]], [["create"], ["delete", 2], ["create"]]], alive=[0], free=[1, 2, 3]),
    dict(progs=[[["create"], ["create"]], [["create"], ["create"]], [["create"], ["delete", 1]]], alive=[0], free=[1, 2]),
]


def tla_seq(x):
    if isinstance(x, list):
        return "<<" + ", ".join(tla_seq(y) for y in x) + ">>"
    if isinstance(x, str):
        return '"%s"' % x
    return str(x)


def mc_files(ix, case, emit):
    name = "AllocConc_MC_%d" % ix
    d = os.path.join(C.OUT, "cfg", "p%d" % os.getpid())
    os.makedirs(d, exist_ok=True)
    with open(os.path.join(C.SPEC, "AllocConc_L1.tla")) as f:
        src = f.read()
    with open(os.path.join(d, "AllocConc_L1.tla"), "w") as f:
        f.write(src)
    with open(os.path.join(d, name + ".tla"), "w") as f:
        f.write("---- MODULE %s ----\nEXTENDS AllocConc_L1\nProgsDef == %s\nInitFreeDef == %s\n====\n"
                % (name, tla_seq(case["progs"]), tla_seq(case["free"])))
    cfg = """SPECIFICATION Spec
CONSTANTS
  NT = %d
  Progs <- ProgsDef
  InitAlive = {%s}
  InitFree <- InitFreeDef
  Spurious = TRUE
  Emit = %s
INVARIANT Distinct
INVARIANT OwnAlive
INVARIANT DeleteFaithful
INVARIANT FinalAlive
INVARIANT Bounds
VIEW View
CHECK_DEADLOCK FALSE
""" % (len(case["progs"]), ", ".join(map(str, case["alive"])), "TRUE" if emit else "FALSE")
    with open(os.path.join(d, name + ".cfg"), "w") as f:
        f.write(cfg)
    return d, name


def model_check_case(ix, case):
    d, name = mc_files(ix, case, True)
    md = os.path.join(C.OUT, "md", "conc%d_%d" % (ix, os.getpid()))
    p = C.sh(["timeout", "900", "tlc", "-workers", "8", "-metadir", md, "-cleanup", "-noGenerateSpecTE",
              "-config", name + ".cfg", name + ".tla"], cwd=d, env={"JAVA_TOOL_OPTIONS": "-Xss1g"}, timeout=930)
    C.sh(["rm", "-rf", md])
    if "Model checking completed. No error has been found." not in p.stdout:
        raise C.ToolError("TLC on %s did not complete cleanly:\n%s" % (name, p.stdout[-3000:]))
    return C.tlc_stats(p.stdout) or {}, C.parse_printed(p.stdout, "SCRIPT")


def check(prop, tier, seed):
    params = {"tier": tier}
    key = C.suite_key("conc", params, seed, tier)
    hit = C.cache_get(key)
    if hit is not None:
        hit["cache_hit"] = True
        return [hit]
    rng = random.Random(seed * 977 + 5)
    res = {"suite": "conc", "kind": "mc+stress", "params": params, "cache_hit": False}
    res["rule"] = "schedules = thread-id sequence of every transition TLC explored on AllocConc_L1 for each program set (prefix-deduplicated) + random schedules, each replayed on real threads through the yield-point hook; plus free-running stress programs on 2..32 threads; one logged run per case checked by TLC against Conc_L0"
    cases = CASES if tier == "quick" else CASES_THOROUGH
    scripts = []
    tid = 41000000
    mc = {"states": 0, "transitions": 0, "runs": []}
    nsched = 0
    for ix, case in enumerate(cases):
        st, scheds = model_check_case(ix, case)
        mc["states"] += st.get("states", 0)
        mc["transitions"] += st.get("transitions", 0)
        mc["runs"].append({"case": ix, "states": st.get("states"), "transitions": st.get("transitions"), "depth": st.get("depth")})
        # one schedule per explored transition; drop strict prefixes
        uniq = sorted({tuple(s) for s in scheds})
        pref = set()
        for s in uniq:
            for n in range(1, len(s)):
                pref.add(s[:n])
        uniq = [s for s in uniq if s not in pref]
        if tier == "quick" and len(uniq) > 400:
            rng.shuffle(uniq)
            uniq = uniq[:400]
        nsched += len(uniq)
        nknown = len(case["alive"]) + len(case["free"])
        for s in uniq:
            sc = {"tid": tid, "mode": "sched", "alive_ids": case["alive"], "free_seq": case["free"],
                  "progs": case["progs"], "schedule": list(s)}
            if tid % 4 == 1:
                # exclusive access deletes every k-th entity created in the frame before the merge
                sc["post"] = rng.choice([1, 2])
            if tid % 3 == 0:
                # a second frame on the same world: delete some known entities, create again (recycling after a merge)
                sc["frames"] = [{"progs": [[["delete", rng.randint(1, nknown)], ["create"], ["create"]],
                                           [["create"], ["delete", rng.randint(1, nknown)], ["create"]]],
                                 "schedule": [rng.randint(1, 2) for _ in range(40)]}]
            scripts.append(sc)
            tid += 1
        # random complete schedules for the same programs
        for _ in range(40 if tier == "quick" else 400):
            nt = len(case["progs"])
            s = [rng.randint(1, nt) for _ in range(60)]
            scripts.append({"tid": tid, "mode": "sched", "alive_ids": case["alive"], "free_seq": case["free"],
                            "progs": case["progs"], "schedule": s})
            tid += 1
    res["mc"] = mc
    res["tlc_scripts"] = nsched
    # free-running stress
    for i in range(60 if tier == "quick" else 600):
        nt = rng.choice([2, 3, 4, 8, 16, 32])
        nalive = rng.randint(1, 6)
        nfree = rng.randint(0, 8)
        ids = list(range(nalive + nfree))
        rng.shuffle(ids)
        alive, free = sorted(ids[:nalive]), ids[nalive:]
        progs = []
        tag = 0
        for t in range(nt):
            prog = []
            for _ in range(rng.randint(5, 60 if tier == "quick" else 300)):
                x = rng.random()
                if x < 0.4:
                    prog.append(["create"])
                elif x < 0.5:
                    prog.append(["create_iter"])
                elif x < 0.62:
                    prog.append(["delown"])
                elif x < 0.78:
                    prog.append(["delete", rng.randint(1, nalive + nfree)])
                elif x < 0.84:
                    prog.append(["aliveown"])
                elif x < 0.87:
                    prog.append(["join"])
                elif x < 0.90:
                    prog.append(["pjoin"])
                elif x < 0.94:
                    tag += 1
                    prog.append(["lazy", t * 100000 + tag])
                elif x < 0.955:
                    prog.append(["lazyins", rng.randint(1, 4), t * 100000 + tag + 1])
                    tag += 5
                elif x < 0.97:
                    tag += 1
                    prog.append([rng.choice(["lazycreate", "lazynest", "lazynest"]), t * 100000 + tag])
                else:
                    # a chain of lazy actions, each queuing the next from inside maintain
                    d = rng.choice([1, 3, 9, 12, 20])
                    prog.append(["lazyc", t * 100000 + tag + 1, d])
                    tag += d + 1
            progs.append(prog)
        sc = {"tid": tid, "mode": "free", "alive_ids": alive, "free_seq": free, "progs": progs, "schedule": [],
              "post": rng.choice([0, 0, 1, 2, 3, 102, 103])}
        frames = []
        for _ in range(rng.randint(0, 2)):
            fp = []
            for t in range(rng.choice([2, 3, 4, 8])):
                prog = []
                for _ in range(rng.randint(3, 40)):
                    x = rng.random()
                    if x < 0.5:
                        prog.append(["create"])
                    elif x < 0.62:
                        prog.append(["delown"])
                    elif x < 0.85:
                        prog.append(["delete", rng.randint(1, nalive + nfree + 6)])
                    elif x < 0.90:
                        prog.append(["join"])
                    elif x < 0.93:
                        prog.append(["lazyins", rng.randint(1, 3), 900000 + tag + 1])
                        tag += 4
                    elif x < 0.96:
                        tag += 1
                        prog.append([rng.choice(["lazycreate", "lazynest"]), 900000 + tag])
                    else:
                        tag += 1
                        prog.append(["lazy", 900000 + tag])
                fp.append(prog)
            frames.append({"progs": fp, "schedule": [], "post": rng.choice([0, 0, 1, 3, 101, 102])})
        if frames:
            sc["frames"] = frames
        scripts.append(sc)
        tid += 1
    # bursts: many threads drain a long free list at once (and run past its end), nothing else going on
    for i in range(8 if tier == "quick" else 60):
        nt = [4, 8, 16, 8][i % 4]
        nfree = rng.choice([300, 800, 1500])
        nalive = rng.randint(1, 4)
        ids = list(range(nalive + nfree))
        free = ids[nalive:]
        rng.shuffle(free)
        per = (nfree + rng.choice([-40, 0, 60])) // nt
        progs = [[["create"] if rng.random() < 0.9 else ["create_iter"] for _ in range(per)] for _ in range(nt)]
        scripts.append({"tid": tid, "mode": "free", "alive_ids": ids[:nalive], "free_seq": free, "progs": progs, "schedule": [],
                        "post": 0})
        tid += 1
    # lazy floods: several threads queue thousands of actions in ONE frame (more than any fixed-size
    # buffer a queue might be given), a few of them chains that queue further ones from inside maintain
    for i in range(2 if tier == "quick" else 8):
        nt = [4, 8][i % 2]
        per = rng.choice([1100, 1400, 2300]) * 4 // nt          # 4400 .. 9200 actions in the frame
        progs = []
        for t in range(nt):
            prog = []
            tag = 0
            for _ in range(per):
                if rng.random() < 0.003:
                    d = rng.choice([1, 3, 9])
                    prog.append(["lazyc", t * 100000 + tag + 1, d])
                    tag += d + 1
                else:
                    tag += 1
                    prog.append(["lazy", t * 100000 + tag])
            progs.append(prog)
        scripts.append({"tid": tid, "mode": "free", "alive_ids": [0, 1], "free_seq": [2, 3], "progs": progs, "schedule": [],
                        "post": 0})
        tid += 1
    workdir = os.path.join(C.OUT, "work", "%s_%d" % (key, os.getpid()))
    C.sh(["rm", "-rf", workdir])
    r = C.exec_and_validate("conc", scripts, workdir, "Conc_Trace.tla", "Conc_Trace.cfg", events_per_chunk=300)
    res.update(n_scripts=r["n_scripts"], n_events=r["n_events"], wall_s=r["wall_s"])
    bytid = {s["tid"]: s for s in scripts}
    viol, seen = [], set()
    for v in sorted(r["viol"], key=lambda x: (x["p"], x["tid"])):
        if (v["p"], v["tid"]) in seen:
            continue
        seen.add((v["p"], v["tid"]))
        ent = {"p": v["p"], "tid": v["tid"], "m": v["m"], "d": v["d"][:3000], "line": v["line"]}
        if len(viol) < 8:
            ent["script"] = bytid.get(v["tid"])
        viol.append(ent)
    res["viol"] = viol
    res["samples"] = [scripts[0], {k: (v if k != "progs" else [p[:6] for p in v[:3]]) for k, v in scripts[-1].items()}]
    C.sh(["rm", "-rf", workdir])
    C.cache_put(key, res)
    return [res]
