"""Shared machinery of the /verif checks: building the harness from /repo's
working tree, running TLC (model checking with script emission, trace
validation), caching of domain runs, evidence and exit-code policy.

Exit codes: 0 property held on everything explored; 1 VIOLATION (with a
replay file); 2 tool error / timeout (never reported as a violation).
"""
import hashlib
import json
import os
import re
import subprocess
import sys
import time
from concurrent.futures import ThreadPoolExecutor

VERIF = os.path.dirname(os.path.dirname(os.path.abspath(__file__)))
REPO = "/repo"
SPEC = os.path.join(VERIF, "spec")
HARNESS = os.path.join(VERIF, "harness")
OUT = os.path.join(VERIF, "out")
BIN = os.path.join(HARNESS, "target", "release", "specs-verif-harness")
TLA_JAR = "/opt/veriftools/tla/tla2tools.jar"
NCPU = os.cpu_count() or 8


class ToolError(Exception):
    pass


def log(*a):
    print("[verif]", *a, file=sys.stderr, flush=True)


def sh(cmd, cwd=None, env=None, timeout=None, check=False):
    e = dict(os.environ)
    if env:
        e.update(env)
    try:
        p = subprocess.run(cmd, cwd=cwd, env=e, timeout=timeout, stdout=subprocess.PIPE,
                           stderr=subprocess.STDOUT, text=True, errors="replace")
    except subprocess.TimeoutExpired as ex:
        raise ToolError("timeout after %ss: %s" % (timeout, " ".join(cmd[:6])))
    if check and p.returncode != 0:
        raise ToolError("command failed (%d): %s\n%s" % (p.returncode, " ".join(cmd[:8]), p.stdout[-3000:]))
    return p


# --------------------------------------------------------------- hashing
def _hash_tree(root, skip_dirs):
    h = hashlib.sha256()
    for d, dirs, files in os.walk(root):
        dirs[:] = sorted(x for x in dirs if x not in skip_dirs)
        for f in sorted(files):
            p = os.path.join(d, f)
            if os.path.islink(p):
                continue
            h.update(os.path.relpath(p, root).encode())
            try:
                with open(p, "rb") as fh:
                    h.update(hashlib.sha256(fh.read()).digest())
            except OSError:
                pass
    return h.hexdigest()


_repo_hash = None


def repo_hash():
    global _repo_hash
    if _repo_hash is None:
        _repo_hash = _hash_tree(REPO, {"target", ".git"})
    return _repo_hash


def machinery_hash():
    h = hashlib.sha256()
    h.update(_hash_tree(SPEC, {"work", "states"}).encode())
    h.update(_hash_tree(os.path.join(HARNESS, "src"), set()).encode())
    h.update(_hash_tree(os.path.join(VERIF, "lib"), {"__pycache__"}).encode())
    return h.hexdigest()


# ----------------------------------------------------------------- build
def build_harness():
    """(Re)build the harness against /repo's current working tree, hooks on."""
    t0 = time.time()
    p = sh(["cargo", "build", "--release", "--offline"], cwd=HARNESS,
           env={"CARGO_NET_OFFLINE": "true"}, timeout=1500)
    if p.returncode != 0:
        raise ToolError("harness build failed:\n" + p.stdout[-4000:])
    log("harness built in %.1fs" % (time.time() - t0))
    return time.time() - t0


# ------------------------------------------------------------------- TLC
def tlc_cmd(module, cfg, workers, extra=None, xmx="4g", deque=False):
    opts = ["-Xss1g", "-Xmx" + xmx, "-XX:+UseParallelGC"]
    if deque:
        opts.append("-Dtlc2.tool.queue.IStateQueue=StateDeque")
    return (["java"] + opts + ["-cp", TLA_JAR + ":/opt/veriftools/tla/CommunityModules-deps.jar:/opt/veriftools/tla/*",
                               "tlc2.TLC"], module, cfg, workers, extra or [])


_tlc_launcher = None


def tlc_launcher():
    """Use the `tlc` wrapper on PATH (it sets the CommunityModules classpath)."""
    return "tlc"


def run_tlc(module, cfg, workers=8, timeout=1800, env=None, metadir=None, extra=None, deque=False, xmx=None):
    md = metadir or os.path.join(OUT, "md", "%d_%d" % (os.getpid(), int(time.time() * 1e6) % 10 ** 9))
    os.makedirs(md, exist_ok=True)
    jto = "-Xss1g"
    if xmx:
        jto += " -Xmx" + xmx
    if deque:
        jto += " -Dtlc2.tool.queue.IStateQueue=StateDeque"
    e = {"JAVA_TOOL_OPTIONS": jto}
    if env:
        e.update(env)
    cmd = ["timeout", str(timeout), "tlc", "-workers", str(workers), "-metadir", md, "-cleanup",
           "-noGenerateSpecTE", "-config", cfg] + (extra or []) + [module]
    p = sh(cmd, cwd=SPEC, env=e, timeout=timeout + 30)
    sh(["rm", "-rf", md])
    return p


STATS_RE = re.compile(r"(\d+) states generated, (\d+) distinct states found")
DEPTH_RE = re.compile(r"The depth of the complete state graph search is (\d+)")


def tlc_stats(out):
    m = None
    for m in STATS_RE.finditer(out):
        pass
    d = DEPTH_RE.search(out)
    if not m:
        return None
    return {"transitions": int(m.group(1)), "states": int(m.group(2)), "depth": int(d.group(1)) if d else None}


def parse_printed(out, tag):
    """Values printed with PrintT(<<tag, json-string>>)."""
    res = []
    pre = '<<"%s", "' % tag
    for line in out.splitlines():
        if line.startswith(pre) and line.endswith('">>'):
            body = line[len(pre):-3]
            # TLC prints the string with TLA+ escapes: \" and \\
            body = body.replace('\\"', '"').replace("\\\\", "\\")
            try:
                res.append(json.loads(body))
            except Exception as ex:
                raise ToolError("cannot parse %s line: %s ... (%s)" % (tag, line[:200], ex))
    return res


def write_cfg(path, text):
    os.makedirs(os.path.dirname(path), exist_ok=True)
    with open(path, "w") as f:
        f.write(text)


def model_check(module, cfg_text, name, workers=8, timeout=1500, want_scripts=True):
    """Run TLC on an MC module; returns (stats, scripts). Raises ToolError if TLC
    reports a violated invariant of the *model* (that is a machinery defect, or a
    demonstration config) or any error."""
    cfg = os.path.join(OUT, "cfg", "p%d" % os.getpid(), name + ".cfg")
    write_cfg(cfg, cfg_text)
    t0 = time.time()
    p = run_tlc(module, cfg, workers=workers, timeout=timeout)
    out = p.stdout
    if "Model checking completed. No error has been found." not in out:
        raise ToolError("TLC model checking of %s (%s) did not complete cleanly:\n%s" % (module, name, out[-3000:]))
    st = tlc_stats(out) or {}
    st["wall_s"] = round(time.time() - t0, 1)
    scripts = parse_printed(out, "SCRIPT") if want_scripts else []
    return st, scripts


# --------------------------------------------------------- trace validation
def validate_trace(trace_path, module="World_Trace.tla", cfg="World_Trace.cfg", timeout=900):
    """TLC validates one ndjson trace file against an L0 monitor; returns
    (n_events, violations)."""
    p = run_tlc(module, os.path.join(SPEC, cfg), workers=1, timeout=timeout, env={"TRACE": trace_path},
                deque=True, xmx="3g")
    out = p.stdout
    v = parse_printed(out, "VERDICT")
    if "Model checking completed. No error has been found." not in out or not v:
        raise ToolError("trace validation failed for %s:\n%s" % (trace_path, out[-3000:]))
    return v[-1]["n"], v[-1]["viol"]


def sanitize(path):
    """a trace written by misbehaving code may hold bytes that are not UTF-8 (a value read from
    freed memory): they are replaced, so that the trace can still be read and checked"""
    try:
        with open(path, "rb") as f:
            b = f.read()
    except OSError:
        return
    try:
        b.decode("utf-8")
    except UnicodeDecodeError:
        with open(path, "w") as f:
            f.write(b.decode("utf-8", errors="replace"))


def _runs_of(path):
    """split a trace file into per-script runs: [(tid, [lines])]; a run starts at a Reset
    event (world, save/load domains) or is a single line (one event per script)"""
    runs = []
    multi = False
    with open(path) as f:
        for line in f:
            if not line.strip():
                continue
            try:
                e = json.loads(line)
            except Exception:
                continue
            if e.get("op") == "Reset":
                multi = True
                runs.append((e["cfg"]["tid"] if "cfg" in e else e.get("tid"), [line]))
            elif multi and runs:
                runs[-1][1].append(line)
            else:
                runs.append((e.get("tid"), [line]))
    return runs


def isolate_uninterpretable(tp, module, cfg, err, limit=3):
    runs = _runs_of(tp)
    n_total = 0
    viol = []
    bad = []

    def check(rs, depth):
        nonlocal n_total
        if not rs or len(bad) >= limit:
            return
        part = tp + ".iso%d_%d" % (depth, len(rs))
        with open(part, "w") as f:
            for _, ls in rs:
                f.writelines(ls)
        try:
            n, v = validate_trace(part, module, cfg)
            n_total += n
            viol.extend(v)
        except ToolError as e2:
            if len(rs) == 1:
                bad.append((rs[0][0], str(e2)))
            else:
                mid = len(rs) // 2
                check(rs[:mid], depth + 1)
                check(rs[mid:], depth + 1)
        finally:
            try:
                os.remove(part)
            except OSError:
                pass

    check(runs, 0)
    if not bad:
        raise ToolError(err)
    for tid, msg in bad:
        m = re.search(r"(Attempted[^\n]*|The exception was[^\n]*\n[^\n]*)", msg)
        viol.append({"tid": tid, "line": 0, "p": "*", "m": "the recorded execution cannot be interpreted by the specification (TLC evaluation error)",
                     "d": (m.group(1) if m else msg[-300:]).replace("\n", " ")[:400], "trace_file": tp})
    return n_total, viol


def split_file_by_scripts(lines_iter, nchunks):
    chunks = [[] for _ in range(nchunks)]
    for i, l in enumerate(lines_iter):
        chunks[i % nchunks].append(l)
    return [c for c in chunks if c]


def exec_and_validate(domain, scripts, workdir, module, cfg, events_per_chunk=15000, est_events_per_script=8):
    """Run scripts on the real code and have TLC validate the recorded traces.
    scripts: list of dicts with unique 'tid'. Returns dict(n_scripts, n_events, viol, wall)."""
    os.makedirs(workdir, exist_ok=True)
    t0 = time.time()
    total_est = sum(max(1, len(s.get("ops", [])) + 2) for s in scripts)
    nchunks = max(1, min(len(scripts), max(NCPU, total_est // events_per_chunk)))
    nchunks = min(nchunks, 256)
    chunks = [[] for _ in range(nchunks)]
    for i, s in enumerate(scripts):
        chunks[i % nchunks].append(s)
    chunks = [c for c in chunks if c]

    iso_found = [0]

    def work(ix):
        sp = os.path.join(workdir, "s%03d.ndjson" % ix)
        tp = os.path.join(workdir, "t%03d.ndjson" % ix)
        todo = list(chunks[ix])
        crashes = []
        part = 0
        while True:
            tpp = tp if part == 0 else tp + ".part%d" % part
            with open(sp, "w") as f:
                for s in todo:
                    f.write(json.dumps(s, separators=(",", ":")) + "\n")
            hung = False
            try:
                p = sh([BIN, domain, sp, tpp], timeout=900)
            except ToolError:
                # the code under test did not terminate (the harness itself has no loops without bound)
                hung = True

                class _P:
                    returncode = -999
                    stdout = "no termination within 900 s"
                p = _P()
            sanitize(tpp)
            if p.returncode == 0:
                break
            # the code under test brought the process down (abort / segfault): find the script
            cur = None
            try:
                cur = json.load(open(tpp + ".cur"))
            except Exception:
                pass
            idx = next((i for i, s in enumerate(todo) if s.get("tid") == cur), None)
            if idx is None:
                # the side file is unusable (the process was brought down while it was being replaced):
                # the script that was running is the one after the last script that left a trace
                seen = None
                try:
                    with open(tpp) as f:
                        for line in f:
                            if not line.endswith("\n"):
                                continue
                            try:
                                e = json.loads(line)
                            except Exception:
                                continue
                            t = e.get("cfg", {}).get("tid") if e.get("op") == "Reset" else e.get("tid")
                            if t is not None:
                                seen = t
                except OSError:
                    pass
                k = next((i for i, s in enumerate(todo) if s.get("tid") == seen), None)
                idx = 0 if k is None else min(k + 1, len(todo) - 1)
                cur = todo[idx].get("tid") if todo else None
            if idx is None or cur is None:
                raise ToolError("harness failed on %s (exit %d):\n%s" % (sp, p.returncode, p.stdout[-2000:]))
            crashes.append({"tid": cur, "line": 0, "p": "*",
                            "m": ("the implementation did not terminate while executing this script" if hung
                                  else "the implementation crashed the process while executing this script"),
                            "d": "exit status %d; %s" % (p.returncode, p.stdout[-300:].replace("\n", " "))})
            # keep the complete scripts recorded before the crash, continue after the crashed one
            keep = []
            with open(tpp) as f:
                for line in f:
                    if line.endswith("\n"):
                        keep.append(line)
            # drop the (incomplete) events of the crashed script
            cut = len(keep)
            for i in range(len(keep) - 1, -1, -1):
                try:
                    e = json.loads(keep[i])
                except Exception:
                    cut = i
                    continue
                t = e.get("cfg", {}).get("tid") if e.get("op") == "Reset" else e.get("tid")
                if e.get("op") == "Reset" or "tid" in e:
                    if t == cur:
                        cut = i
                    break
            with open(tpp, "w") as f:
                f.writelines(keep[:cut])
            todo = todo[idx + 1:]
            if len(crashes) >= 25 or hung:
                todo = []      # enough evidence; the rest of this chunk is not executed
            part += 1
            if not todo:
                break
        # concatenate the parts
        if part > 0:
            with open(tp, "a") as out:
                for k in range(1, part + 1):
                    pp = tp + ".part%d" % k
                    if os.path.exists(pp):
                        out.write(open(pp).read())
        if os.path.getsize(tp) == 0:
            return 0, crashes, tp
        try:
            n, viol = validate_trace(tp, module, cfg)
        except ToolError as e:
            # TLC could not evaluate the specification on this trace.  Isolate the script(s)
            # responsible: a recorded execution on which the property-level specification is
            # not even defined is outside what it allows (on the unchanged tree this never happens).
            # (bounded effort: once a handful of such scripts has been isolated in this suite, further
            # chunks that cannot be evaluated are not bisected any more - the verdict is already known)
            if iso_found[0] >= 6:
                n, viol = 0, []
            else:
                n, viol = isolate_uninterpretable(tp, module, cfg, str(e))
                iso_found[0] += sum(1 for x in viol if x["p"] == "*")
        return n, viol + crashes, tp

    n_events = 0
    viol = []
    with ThreadPoolExecutor(max_workers=min(NCPU, 14)) as ex:
        for n, v, tp in ex.map(work, range(len(chunks))):
            n_events += n
            for x in v:
                x["trace_file"] = tp
            viol.extend(v)
    return {"n_scripts": len(scripts), "n_events": n_events, "viol": viol, "wall_s": round(time.time() - t0, 1)}


def extract_trace(trace_file, tid):
    """lines of one script's trace out of a concatenated trace file"""
    res = []
    on = False
    with open(trace_file) as f:
        for line in f:
            if line.startswith('{"cfg"') or '"op":"Reset"' in line[:4000] and line.rstrip().endswith('"op":"Reset"}'):
                try:
                    ev = json.loads(line)
                    on = ev.get("op") == "Reset" and ev["cfg"].get("tid") == tid
                except Exception:
                    on = False
            if on:
                res.append(line.rstrip("\n"))
    return res


def inductive_suite(name, module, tier, params, cinit, tlc_cfg, extra_defs="", tlc_note="", safe="Safe"):
    """Design-level and unbounded in the length of histories: <module>.tla's IndInv is inductive
    (Apalache: Init => IndInv, IndInv /\\ Next => IndInv', IndInv => safety property) and TLC re-checks
    Inv on a bounded instance.  This says nothing about the code by itself (the traces do that) and
    is reported as a suite of its own; a solver that does not finish in time is recorded, not an error."""
    import shutil
    key = suite_key(name, params, 0, tier)
    hit = cache_get(key)
    if hit is not None:
        hit["cache_hit"] = True
        return hit
    d = os.path.join(OUT, "cfg", "p%d" % os.getpid(), name)
    os.makedirs(d, exist_ok=True)
    shutil.copy(os.path.join(SPEC, module + ".tla"), d)
    open(os.path.join(d, "MC_Ind.tla"), "w").write(
        "---- MODULE MC_Ind ----\nEXTENDS %s\nConstInit == %s\n%s\n====\n" % (module, cinit, extra_defs))
    open(os.path.join(d, "MC_Ind.cfg"), "w").write(
        "SPECIFICATION Spec\n%s\nINVARIANT Inv\nINVARIANT %s\nCHECK_DEADLOCK FALSE\n" % (tlc_cfg, safe))
    t0 = time.time()
    steps = []
    res = {"suite": name, "kind": "inductive invariant (Apalache) + bounded TLC", "params": params,
           "cache_hit": False, "n_scripts": 0, "n_events": 0, "viol": [], "samples": []}
    try:
        md = os.path.join(OUT, "md", "ind%d" % os.getpid())
        p = sh(["timeout", "300", "tlc", "-workers", "4", "-metadir", md, "-cleanup", "-noGenerateSpecTE",
                "-config", "MC_Ind.cfg", "MC_Ind.tla"], cwd=d, timeout=330)
        sh(["rm", "-rf", md])
        ok = "Model checking completed. No error has been found." in p.stdout
        st = tlc_stats(p.stdout) or {}
        steps.append({"step": "TLC: Inv and %s on the bounded instance (%s)" % (safe, tlc_note), "ok": ok, **st})
        if ok:
            res["mc"] = st
        for nm, args in (("Init => IndInv", ["--init=Init", "--inv=IndInv", "--length=0"]),
                         ("IndInv /\\ Next => IndInv'", ["--init=IndInit", "--inv=IndInv", "--length=1"]),
                         ("IndInv => " + safe, ["--init=IndInit", "--inv=" + safe, "--length=0"])):
            p = sh(["timeout", "900", "apalache-mc", "check", "--cinit=ConstInit", "--out-dir=" + os.path.join(d, "_apalache-out")]
                   + args + ["MC_Ind.tla"], cwd=d, timeout=930)
            steps.append({"step": "Apalache: " + nm, "ok": "EXITCODE: OK" in p.stdout,
                          "outcome": next((l.strip()[:40] for l in p.stdout.splitlines() if "The outcome is" in l), "no outcome (timeout / tool failure)")})
    except ToolError as e:
        steps.append({"step": "not completed", "ok": False, "outcome": str(e)[:200]})
    res["wall_s"] = round(time.time() - t0, 1)
    res["extra"] = {"steps": steps, "all_ok": all(x["ok"] for x in steps)}
    shutil.rmtree(d, ignore_errors=True)
    cache_put(key, res)
    return res


def run_until_violation(prop, thunks):
    """Run the suites of a check in order; once one of them has found a violation charged to
    this property (or a crash), the remaining ones are not run: the verdict is known."""
    out = []
    for t in thunks:
        r = t()
        rs = r if isinstance(r, list) else [r]
        out.extend(rs)
        if any(v.get("p") in (prop, "*") for x in rs for v in x.get("viol", [])):
            break
    return out


# ----------------------------------------------------------------- cache
def cache_get(key):
    p = os.path.join(OUT, "cache", key + ".json")
    if os.path.exists(p):
        try:
            with open(p) as f:
                return json.load(f)
        except Exception:
            return None
    return None


def cache_put(key, val):
    d = os.path.join(OUT, "cache")
    os.makedirs(d, exist_ok=True)
    tmp = os.path.join(d, key + ".tmp%d" % os.getpid())
    with open(tmp, "w") as f:
        json.dump(val, f)
    os.replace(tmp, os.path.join(d, key + ".json"))


def suite_key(name, params, seed, tier):
    s = json.dumps([name, params, seed, tier, repo_hash(), machinery_hash()], sort_keys=True)
    return name + "-" + hashlib.sha256(s.encode()).hexdigest()[:24]


# -------------------------------------------------------- known findings
def known_findings():
    p = os.path.join(VERIF, "known_findings.json")
    if not os.path.exists(p):
        return []
    with open(p) as f:
        return json.load(f).get("findings", [])


def write_evidence(prop, ev):
    d = os.path.join(VERIF, "evidence")
    os.makedirs(d, exist_ok=True)
    with open(os.path.join(d, prop + ".json"), "w") as f:
        json.dump(ev, f, indent=1, sort_keys=True)
        f.write("\n")


def write_replay(prop, payload):
    d = os.path.join(OUT, "replays")
    os.makedirs(d, exist_ok=True)
    h = hashlib.sha256(json.dumps(payload, sort_keys=True).encode()).hexdigest()[:12]
    p = os.path.join(d, "%s-%s.json" % (prop, h))
    with open(p, "w") as f:
        json.dump(payload, f, indent=1)
    return p
