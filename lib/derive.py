"""Derive macros (C18, translation validation): type definitions are drawn
from the grammar of supported shapes (named / tuple structs, enums with unit /
tuple / named variants, nesting, generic parameters, skip-convert and forwarded
attributes; storage requests with and without type arguments); a Rust program
deriving ConvertSaveload / Component for every one of them is generated, built
against /repo's working tree and run; TLC validates what it printed against
Shapes.tla (the field-wise meaning of the derives)."""
import json
import os
import random
import re

from . import common as C

GEN = os.path.join(C.OUT, "c18gen")

PLAIN = ["u32", "string", "vecu32", "optu32", "pair"]
RUST_TY = {"u32": "u32", "string": "String", "vecu32": "Vec<u32>", "optu32": "Option<u32>", "pair": "(u32, u8)", "entity": "Entity"}


class G:
    def __init__(self, rng, n_entities=4):
        self.rng = rng
        self.types = []          # generated type ASTs (non-generic instantiable: (ast, rust_name, generic?))
        self.count = 0
        self.n_entities = n_entities
        self.wide_left = 2       # the first enums also get variants with more than ten fields
        self.wide_struct_left = 1

    def field_desc(self, depth, allow_generic):
        r = self.rng.random()
        if r < 0.30:
            return ["entity"]
        if r < 0.62 or depth <= 0:
            return [self.rng.choice(PLAIN)]
        if r < 0.72 and allow_generic:
            return ["gen"]
        nest = [t for t in self.types if not t["generic"]]
        if nest:
            return ["nested", self.rng.choice(nest)["name"]]
        return [self.rng.choice(PLAIN)]

    def fields(self, named, depth, allow_generic, nmax=4):
        fs = []
        for i in range(self.rng.randint(1, nmax)):
            t = self.field_desc(depth, allow_generic)
            plain = t[0] in PLAIN
            fs.append({"n": ("f%d" % i) if named else "", "t": t,
                       "ren": ("r%d_x" % i) if named and self.rng.random() < 0.25 else "",
                       "skip": plain and self.rng.random() < 0.2})
            if fs[-1]["ren"]:
                # a second forwarded attribute (without effect on the output) before or after the rename
                fs[-1]["more"] = self.rng.choice(["", "pre", "post", "pre"])
            if fs[-1]["skip"] and self.rng.random() < 0.5:
                # a forwarded serde attribute that never takes effect (the predicate is constantly false)
                fs[-1]["sif"] = True
            if fs[-1]["skip"] and self.rng.random() < 0.6:
                # a converted field of the same type right after a skipped one (positional mix-ups show)
                fs.append({"n": ("f%dn" % i) if named else "", "t": list(t), "ren": "", "skip": False})
        return fs

    def new_type(self, depth):
        self.count += 1
        name = "T%d" % self.count
        k = self.rng.choice(["named", "named", "tuple", "enum"])
        generic = self.rng.random() < 0.2
        t = {"k": k, "name": name, "generic": generic, "fields": [], "variants": []}
        if k == "named":
            t["fields"] = self.fields(True, depth, generic)
        elif k == "tuple":
            t["fields"] = self.fields(False, depth, generic)
            if self.wide_struct_left > 0:
                self.wide_struct_left -= 1
                t["fields"] = [{"n": "", "t": ["entity"], "ren": "", "skip": False}] + \
                              [{"n": "", "t": ["u32"], "ren": "", "skip": False} for _ in range(11)] + t["fields"][:1]
        else:
            for vi in range(self.rng.randint(1, 4)):
                vk = self.rng.choice(["unit", "tuple", "named"])
                t["variants"].append({"n": "V%d" % vi, "k": vk, "ren": ("VR%d_%s" % (vi, name)) if self.rng.random() < 0.25 else "",
                                      "fields": [] if vk == "unit" else self.fields(vk == "named", depth, generic, 3)})
            if self.wide_left > 0:
                # wide variants: more than ten fields (the later ones of one type, so that a permutation still compiles)
                self.wide_left -= 1
                wf = [{"n": "", "t": ["entity"], "ren": "", "skip": False}, {"n": "", "t": ["entity"], "ren": "", "skip": False}] + \
                     [{"n": "", "t": ["u32"], "ren": "", "skip": False} for _ in range(self.rng.choice([9, 10, 11]))]
                t["variants"].append({"n": "VW", "k": "tuple", "ren": "", "fields": wf})
                nf = [{"n": "w%d" % i, "t": ["u32"] if i % 3 else ["entity"], "ren": "", "skip": False} for i in range(self.rng.choice([11, 12]))]
                t["variants"].append({"n": "VN", "k": "named", "ren": "", "fields": nf})
        if generic and not any(f["t"][0] == "gen" for f in t["fields"] + [f for v in t["variants"] for f in v["fields"]]):
            # make sure the parameter is used
            if k == "enum":
                t["variants"].append({"n": "VG", "k": "tuple", "ren": "", "fields": [{"n": "", "t": ["gen"], "ren": "", "skip": False}]})
            else:
                t["fields"].append({"n": "fg" if k == "named" else "", "t": ["gen"], "ren": "", "skip": False})
        # the derive's data type is generic over the marker type and must use it somewhere
        # (a type made of plain serde fields only does not compile - and does not need the
        # derive: the blanket impl covers it), so such shapes are outside the grammar
        allf = t["fields"] + [f for v in t["variants"] for f in v["fields"]]
        if not any(f["t"][0] in ("entity", "nested", "gen") for f in allf):
            if k == "enum":
                t["variants"].append({"n": "VE", "k": "tuple", "ren": "", "fields": [{"n": "", "t": ["entity"], "ren": "", "skip": False}]})
            else:
                t["fields"].append({"n": "fe" if k == "named" else "", "t": ["entity"], "ren": "", "skip": False})
        self.types.append(t)
        return t


def rust_field_ty(t):
    if t[0] == "nested":
        return t[1]
    if t[0] == "gen":
        return "T"
    return RUST_TY[t[0]]


def rust_typedef(t):
    gen = "<T>" if t["generic"] else ""
    out = ["#[derive(ConvertSaveload, Clone, Debug, PartialEq)]"]

    def fld(f, named):
        a = ""
        if f["skip"]:
            a += "#[convert_save_load_skip_convert] "
        if f.get("sif"):
            a += '#[convert_save_load_attr(serde(skip_serializing_if = "never"))] '
        if f["ren"]:
            ren = '#[convert_save_load_attr(serde(rename = "%s"))] ' % f["ren"]
            alias = '#[convert_save_load_attr(serde(alias = "%s_al"))] ' % f["ren"]
            more = f.get("more", "")
            a += (alias + ren) if more == "pre" else (ren + alias) if more == "post" else ren
        return a + (("%s: " % f["n"]) if named else "") + rust_field_ty(f["t"])

    if t["k"] == "named":
        out.append("pub struct %s%s { %s }" % (t["name"], gen, ", ".join(fld(f, True) for f in t["fields"])))
    elif t["k"] == "tuple":
        out.append("pub struct %s%s(%s);" % (t["name"], gen, ", ".join(fld(f, False) for f in t["fields"])))
    else:
        vs = []
        for v in t["variants"]:
            va = ('#[convert_save_load_attr(serde(rename = "%s"))] ' % v["ren"]) if v.get("ren") else ""
            if v["k"] == "unit":
                vs.append(va + v["n"])
            elif v["k"] == "tuple":
                vs.append(va + "%s(%s)" % (v["n"], ", ".join(fld(f, False) for f in v["fields"])))
            else:
                vs.append(va + "%s { %s }" % (v["n"], ", ".join(fld(f, True) for f in v["fields"])))
        out.append("pub enum %s%s { %s }" % (t["name"], gen, ", ".join(vs)))
    return "\n".join(out)


class Inst:
    """instantiation of the generic parameter + value generation"""

    def __init__(self, g, bytype):
        self.g = g
        self.rng = g.rng
        self.bytype = bytype

    def resolve(self, t, garg):
        """type AST with names resolved and the generic parameter instantiated (for TLA+)"""
        def rf(f):
            d = f["t"]
            if d[0] == "nested":
                dd = ["nested", self.resolve(self.bytype[d[1]], None)]
            elif d[0] == "gen":
                dd = ["gen", garg]
            else:
                dd = d
            return {"n": f["n"], "t": dd, "ren": f["ren"], "skip": f["skip"]}
        return {"k": t["k"], "name": t["name"], "fields": [rf(f) for f in t["fields"]],
                "variants": [{"n": v["n"], "k": v["k"], "ren": v.get("ren", ""), "fields": [rf(f) for f in v["fields"]]} for v in t["variants"]]}

    def value(self, d):
        """(TLA value AST, rust expr) for a resolved field descriptor"""
        r = self.rng
        k = d[0]
        if k == "u32":
            x = 1 + r.randrange(999)
            return ["n", x], "%du32" % x
        if k == "string":
            s = r.choice(["", "a", "hello", "x y", "veteran"])
            return ["s", s], '"%s".to_string()' % s
        if k == "vecu32":
            xs = [r.randrange(50) for _ in range(r.randint(0, 3))]
            return ["a", [["n", x] for x in xs]], "vec![%s]" % ", ".join("%du32" % x for x in xs)
        if k == "optu32":
            if r.random() < 0.4:
                return ["z"], "None"
            x = r.randrange(100)
            return ["n", x], "Some(%du32)" % x
        if k == "pair":
            x, y = r.randrange(100), r.randrange(100)
            return ["a", [["n", x], ["n", y]]], "(%du32, %du8)" % (x, y)
        if k == "entity":
            i = r.randrange(self.g.n_entities)
            return ["e", i], "ents[%d]" % i
        if k == "gen":
            return self.value(d[1])
        if k == "nested":
            v, e = self.tvalue(d[1])
            return ["v", v], e
        raise ValueError(k)

    def tvalue(self, T, force_var=None):
        if T["k"] in ("named", "tuple"):
            vs, es = [], []
            for f in T["fields"]:
                v, e = self.value(f["t"])
                vs.append(v)
                es.append(("%s: %s" % (f["n"], e)) if T["k"] == "named" else e)
            expr = ("%s { %s }" if T["k"] == "named" else "%s(%s)") % (T["name"], ", ".join(es))
            return vs, expr
        vi = self.rng.randrange(len(T["variants"])) if force_var is None else force_var
        vr = T["variants"][vi]
        vs, es = [], []
        for f in vr["fields"]:
            v, e = self.value(f["t"])
            vs.append(v)
            es.append(("%s: %s" % (f["n"], e)) if vr["k"] == "named" else e)
        if vr["k"] == "unit":
            expr = "%s::%s" % (T["name"], vr["n"])
        elif vr["k"] == "tuple":
            expr = "%s::%s(%s)" % (T["name"], vr["n"], ", ".join(es))
        else:
            expr = "%s::%s { %s }" % (T["name"], vr["n"], ", ".join(es))
        return {"var": vi + 1, "vals": vs}, expr


STORAGES = [
    ("", "", None), ("VecStorage", "", None), ("VecStorage", "", "self"), ("DenseVecStorage", "", "self"),
    ("HashMapStorage", "", None), ("BTreeStorage", "", "self"), ("DefaultVecStorage", "", None),
    ("FlaggedStorage", "", None), ("FlaggedStorage", "VecStorage", "self"), ("DerefFlaggedStorage", "HashMapStorage", "self"),
    ("FlaggedStorage", "DenseVecStorage", "self"), ("DerefFlaggedStorage", "", None), ("NullStorage", "", None),
]


def generate(seed, ntypes, nvalues):
    rng = random.Random(seed * 7 + 3)
    g = G(rng)
    for i in range(ntypes):
        g.new_type(depth=2 if i > 3 else 0)
    # shapes every run must contain (the random draw above only makes them likely)
    def F(n, t, ren="", skip=False, more=""):
        d = {"n": n, "t": [t], "ren": ren, "skip": skip}
        if more:
            d["more"] = more
        return d
    g.types.append({"k": "enum", "name": "TF1", "generic": False, "fields": [], "variants": [
        {"n": "U0", "k": "unit", "ren": "unit_renamed", "fields": []},
        {"n": "U1", "k": "unit", "ren": "", "fields": []},
        {"n": "P0", "k": "tuple", "ren": "pair_renamed", "fields": [F("", "entity"), F("", "u32", skip=True), F("", "u32"), F("", "entity")]},
        {"n": "N0", "k": "named", "ren": "", "fields": [F("keep", "u32", skip=True), F("who", "entity"), F("label", "string", skip=True),
                                                        F("n", "u32"), F("opt", "optu32", skip=True)]},
        {"n": "N1", "k": "named", "ren": "named_renamed", "fields": [F("a", "entity", ren="first", more="pre"), F("b", "entity", ren="second", more="post")]}]})
    g.types.append({"k": "named", "name": "TF2", "generic": False, "variants": [], "fields": [
        F("s0", "string", skip=True), F("e0", "entity", ren="owner", more="pre"), F("v0", "vecu32", skip=True), F("e1", "entity"),
        F("p0", "pair", ren="coords", more="post")]})
    g.types.append({"k": "tuple", "name": "TF3", "generic": False, "variants": [], "fields": [
        F("", "u32", skip=True), F("", "entity"), F("", "u32", skip=True), F("", "u32"), F("", "entity")]})
    # fields copied as they are that carry a forwarded serde attribute (struct and tuple struct, enum variants)
    def SK(n, t):
        d = F(n, t, skip=True)
        d["sif"] = True
        return d
    g.types.append({"k": "named", "name": "TF4", "generic": False, "variants": [], "fields": [
        F("e0", "entity"), SK("label", "string"), F("w", "u32"), SK("o", "optu32")]})
    g.types.append({"k": "tuple", "name": "TF5", "generic": False, "variants": [], "fields": [
        F("", "entity"), SK("", "u32"), F("", "u32")]})
    g.types.append({"k": "enum", "name": "TF6", "generic": False, "fields": [], "variants": [
        {"n": "A", "k": "tuple", "ren": "", "fields": [SK("", "u32"), F("", "entity")]},
        {"n": "B", "k": "named", "ren": "", "fields": [F("who", "entity"), SK("tag", "string")]}]})
    # field names that coincide with identifiers the generated code uses itself (`data`, `ids`, `self`-like
    # locals), followed by siblings that share name and type with a field of the nested type
    g.types.append({"k": "named", "name": "TF7P", "generic": False, "variants": [], "fields": [
        F("amount", "u32"), F("owner", "entity"), F("ids", "u32")]})
    g.types.append({"k": "named", "name": "TF7", "generic": False, "variants": [], "fields": [
        F("buyer", "entity"), {"n": "data", "t": ["nested", "TF7P"], "ren": "", "skip": False}, F("amount", "u32"), F("owner", "entity"),
        F("ids", "u32"), F("func", "u32", skip=True)]})
    g.types.append({"k": "enum", "name": "TF8", "generic": False, "fields": [], "variants": [
        {"n": "A", "k": "named", "ren": "", "fields": [F("data", "u32"), {"n": "inner", "t": ["nested", "TF7P"], "ren": "", "skip": False}, F("amount", "u32")]}]})
    # (a NAMED ENUM VARIANT with a field called `ids` does not compile on the unchanged tree: the generated match arm
    # binds the fields by name and shadows the conversion closure - a limitation of the derive, not a silent
    # misbehaviour; such shapes are not generated)
    bytype = {t["name"]: t for t in g.types}
    inst = Inst(g, bytype)
    items = []       # (tid, resolved type, value, rust type expr, rust value expr)
    tid = 91000000
    for t in g.types:
        gargs = [None]
        if t["generic"]:
            gargs = [["u32"], ["entity"], ["string"]]
            nest = [x for x in g.types if not x["generic"] and x["name"] < t["name"]]
            if nest:
                gargs.append(["nested", inst.resolve(rng.choice(nest), None)])
        for ga in gargs:
            T = inst.resolve(t, ga)
            tyexpr = t["name"]
            if t["generic"]:
                tyexpr += "<%s>" % (ga[1]["name"] if ga[0] == "nested" else RUST_TY[ga[0]])
            forced = list(range(len(T["variants"]))) if T["k"] == "enum" else []      # every variant at least once
            for fv in forced + [None] * nvalues:
                v, e = inst.tvalue(T, fv)
                # explicit type for generic instantiations
                items.append((tid, T, v, tyexpr, e))
                tid += 1
    comps = []
    for i, (base, inner, arg) in enumerate(STORAGES):
        name = "C%d" % i
        if base == "":
            attr = ""
        elif inner:
            attr = "#[storage(%s<Self, %s<Self>>)]" % (base, inner)
        elif arg == "self":
            attr = "#[storage(%s<Self>)]" % base
        else:
            attr = "#[storage(%s)]" % base
        zst = base == "NullStorage"
        # other attributes / doc comments may stand before the storage request
        pre = ["", "/// documented component\n", "#[allow(dead_code)]\n", "#[repr(C)]\n"][i % 4]
        comps.append({"tid": 92000000 + i, "name": name, "spec": {"base": base, "inner": inner}, "attr": pre + attr, "zst": zst})
    # field-less components without a storage request still get the default storage
    comps.append({"tid": 92000100, "name": "CU0", "spec": {"base": "", "inner": ""}, "attr": "", "zst": True})
    comps.append({"tid": 92000101, "name": "CU1", "spec": {"base": "", "inner": ""}, "attr": "", "zst": "braces"})
    comps.append({"tid": 92000102, "name": "CU2", "spec": {"base": "VecStorage", "inner": ""}, "attr": "#[storage(VecStorage)]", "zst": True})
    # storages named by a module-qualified path
    for j, (attr, base, inner) in enumerate([
            ("#[storage(specs::storage::VecStorage)]", "VecStorage", ""),
            ("#[storage(::specs::storage::HashMapStorage<Self>)]", "HashMapStorage", ""),
            ("#[storage(specs::NullStorage)]", "NullStorage", ""),
            ("#[storage(specs::storage::FlaggedStorage<Self, specs::storage::VecStorage<Self>>)]", "FlaggedStorage", "VecStorage"),
            ("#[storage(specs::storage::BTreeStorage)]", "BTreeStorage", "")]):
        comps.append({"tid": 92000200 + j, "name": "CQ%d" % j, "spec": {"base": base, "inner": inner}, "attr": attr, "zst": base == "NullStorage"})
    return g.types, items, comps


def program(types, items, comps):
    src = ["""#![allow(dead_code, unused_imports, non_snake_case)]
use serde::{Deserialize, Serialize};
use serde_json::{json, Value};
use specs::prelude::*;
use specs::saveload::{ConvertSaveload, Marker, SimpleMarker};
use specs::storage::{BTreeStorage, DerefFlaggedStorage};
use specs::{Component, ConvertSaveload};

pub struct Tag;
type SM = SimpleMarker<Tag>;
fn never<T>(_: &T) -> bool {
    false
}

fn tag(v: &Value) -> Value {
    match v {
        Value::Null => json!(["z"]),
        Value::Bool(b) => json!(["b", b]),
        Value::Number(n) => json!(["n", n]),
        Value::String(s) => json!(["s", s]),
        Value::Array(a) => json!(["a", a.iter().map(tag).collect::<Vec<_>>()]),
        Value::Object(o) => json!(["o", o.iter().map(|(k, v)| json!([k, tag(v)])).collect::<Vec<_>>()]),
    }
}
fn short(s: &str) -> String {
    // strip module paths from a type name
    let mut out = String::new();
    let mut word = String::new();
    let cs: Vec<char> = s.chars().collect();
    let mut i = 0;
    while i < cs.len() {
        let c = cs[i];
        if c.is_alphanumeric() || c == '_' {
            word.push(c);
        } else if c == ':' && i + 1 < cs.len() && cs[i + 1] == ':' {
            word.clear();
            i += 1;
        } else {
            out.push_str(&word);
            word.clear();
            out.push(c);
        }
        i += 1;
    }
    out.push_str(&word);
    out
}
"""]
    for t in types:
        src.append(rust_typedef(t))
    for c in comps:
        body = " {}" if c["zst"] == "braces" else ";" if c["zst"] else "(u32);"
        src.append("#[derive(Component, Default)]\n%s\npub struct %s%s" % (c["attr"], c["name"], body))
    src.append("""
fn mk(id: u64) -> SM {
    serde_json::from_value(json!([id])).or_else(|_| serde_json::from_value(json!(id))).unwrap()
}

fn main() {
    let mut world = World::new();
    let ents: Vec<Entity> = world.create_iter().take(4).collect();
    let to_m = |e: Entity| -> Option<SM> { Some(mk(100 + e.id() as u64)) };
    let ents2 = ents.clone();
    let to_e = move |m: SM| -> Option<Entity> { ents2.iter().copied().find(|e| 100 + e.id() as u64 == m.id()) };
    let mks: Vec<Value> = ents.iter().map(|&e| tag(&serde_json::to_value(to_m(e).unwrap()).unwrap())).collect();
    println!("{}", json!({"op":"Mks","mks":mks}));
""")
    for (tid, T, v, tyexpr, e) in items:
        src.append("""    {
        let r = std::panic::catch_unwind(std::panic::AssertUnwindSafe(|| {
            let v: %s = %s;
            let data = <%s as ConvertSaveload<SM>>::convert_into(&v, &to_m).unwrap();
            let js = serde_json::to_value(&data).unwrap();
            let s = serde_json::to_string(&data).unwrap();
            let back_data: <%s as ConvertSaveload<SM>>::Data = serde_json::from_str(&s).unwrap();
            let back = <%s as ConvertSaveload<SM>>::convert_from(back_data, &to_e).unwrap();
            (tag(&js), back == v)
        }));
        match r {
            Ok((d, rt)) => println!("{}", json!({"op":"Derive","tid":%d,"data":d,"rt":rt,"error":""})),
            Err(_) => println!("{}", json!({"op":"Derive","tid":%d,"data":["z"],"rt":false,"error":"panic"})),
        }
    }""" % (tyexpr, e, tyexpr, tyexpr, tyexpr, tid, tid))
    for c in comps:
        src.append('    println!("{}", json!({"op":"Comp","tid":%d,"name":"%s","storage": short(std::any::type_name::<<%s as specs::Component>::Storage>())}));'
                   % (c["tid"], c["name"], c["name"]))
    src.append("}\n")
    return "\n".join(src)


def check(prop, tier, seed):
    params = {"ntypes": 24 if tier == "quick" else 120, "nvalues": 2 if tier == "quick" else 4}
    key = C.suite_key("derive", params, seed, tier)
    hit = C.cache_get(key)
    if hit is not None:
        hit["cache_hit"] = True
        return [hit]
    types, items, comps = generate(seed, params["ntypes"], params["nvalues"])
    os.makedirs(os.path.join(GEN, "src"), exist_ok=True)
    os.makedirs(os.path.join(GEN, ".cargo"), exist_ok=True)
    open(os.path.join(GEN, "Cargo.toml"), "w").write("""[package]
name = "c18gen"
version = "0.1.0"
edition = "2021"
publish = false
[workspace]
[dependencies]
specs = { path = "/repo", features = ["parallel", "serde", "derive", "uuid_entity", "storage-event-control"] }
serde = { version = "1.0.104", features = ["derive"] }
serde_json = "1.0.48"
[profile.dev]
opt-level = 0
debug = false
""")
    open(os.path.join(GEN, ".cargo", "config.toml"), "w").write('[net]\noffline = true\n[build]\ntarget-dir = "target"\n')
    lock = os.path.join(GEN, "Cargo.lock")
    if not os.path.exists(lock):
        C.sh(["cp", os.path.join(C.HARNESS, "Cargo.lock"), lock])
    open(os.path.join(GEN, "src", "main.rs"), "w").write(program(types, items, comps))
    p = C.sh(["cargo", "run", "--offline", "-q"], cwd=GEN, env={"CARGO_NET_OFFLINE": "true"}, timeout=1500)
    res = {"suite": "derive", "kind": "translation_validation", "params": params, "cache_hit": False}
    res["rule"] = "type definitions drawn from the grammar (seeded), each instantiated with several values; one generated program derives all of them; every printed line is validated by TLC against Shapes.tla; distinct_nontrivial = distinct type definitions + component derives"
    events = []
    if p.returncode != 0:
        # a supported shape that does not compile / run is a finding about the macros (every shape is in the documented grammar)
        msg = [l for l in p.stdout.splitlines() if l.startswith("error")][:3]
        events.append({"op": "Derive", "tid": 91999999, "T": {"k": "named", "name": "X", "fields": [], "variants": []}, "V": [],
                       "mks": [], "data": ["z"], "rt": False, "error": "generated program does not build / run: " + " | ".join(msg)[:500]})
    else:
        byt = {tid: (T, v) for (tid, T, v, _, _) in items}
        byc = {c["tid"]: c for c in comps}
        mks = []
        for line in p.stdout.splitlines():
            if not line.startswith("{"):
                continue
            e = json.loads(line)
            if e["op"] == "Mks":
                mks = e["mks"]
            elif e["op"] == "Derive":
                T, v = byt[e["tid"]]
                e.update({"T": T, "V": v, "mks": mks})
                events.append(e)
            elif e["op"] == "Comp":
                e["spec"] = byc[e["tid"]]["spec"]
                e["storage"] = re.sub(r"\s+", " ", e["storage"])
                events.append(e)
    tp = os.path.join(C.OUT, "work", "%s_%d.ndjson" % (key, os.getpid()))
    os.makedirs(os.path.dirname(tp), exist_ok=True)
    with open(tp, "w") as f:
        for e in events:
            f.write(json.dumps(e) + "\n")
    n, viol = C.validate_trace(tp, "Shapes_Trace.tla", "Shapes_Trace.cfg")
    os.remove(tp)
    res.update(n_scripts=len(events), n_events=n)
    res["viol"] = [{"p": v["p"], "tid": v["tid"], "m": v["m"], "d": v["d"][:2500], "line": v["line"],
                    "script": next((e for e in events if e["tid"] == v["tid"]), None)} for v in viol[:20]]
    res["samples"] = [{"typedef": rust_typedef(types[0])}, {"typedef": rust_typedef(types[-1])}]
    res["extra"] = {"programs": 1, "type_definitions": len(types), "values": len(items), "component_derives": len(comps)}
    res["distinct"] = len(types) + len(comps)
    C.cache_put(key, res)
    return [res]
