"""Script generation for the world domain: conversion of TLC-emitted scripts
(World_MC, 1-based, op classes) into harness scripts (0-based, concrete access
paths) and a seeded random driver.  Scripts carry operations only - never an
expected result; the oracle is World_L0 evaluated by TLC on the recorded trace.
"""
import random, zlib

PATHS = {
    "read": ["get", "wget", "gget", "gwget", "contains", "lend_get", "lend2_get", "r_get_other", "rl_get_other", "rm_get_other", "entry_get", "lentry_get", "lmaybe_get"],
    "write": ["get_mut", "gget_mut", "lend_get_mut", "rm_get_other_mut", "entry_get_mut", "entry_into_mut"],
    "insert": ["insert", "ginsert", "entry_replace", "entry_insert"],
    "orins": ["or_insert", "or_insert_with"],
    "remove": ["remove", "entry_remove", "gremove"],
    "gmod": ["gmod"],
    "replace": ["get_mut_replace", "rm_get_other_mut_replace"],
}
ALL_PATHS = [p for v in PATHS.values() for p in v]

KINDS = ["vec", "dense", "hash", "btree", "defvec", "null", "f_vec", "f_dense", "f_hash", "f_btree",
         "f_defvec", "f_null", "d_vec", "d_dense", "d_hash", "d_btree", "d_defvec", "d_null",
         # plain-data components (no destructor: needs_drop::<T>() is false)
         "p_vec", "p_dense", "p_hash", "p_btree", "p_defvec", "pf_hash"]
BASIC_KINDS = ["vec", "dense", "hash", "btree", "defvec", "null", "f_vec", "d_dense", "p_hash", "p_dense", "p_vec"]
REGS = ["register", "register_with", "setup_read", "setup_write", "dispatcher", "register_twice", "preinsert"]


def conv_op(op, rot):
    """TLC op (1-based) -> harness op (0-based); rot: rotating counter for path choice"""
    o = dict(op)
    if "h" in o:
        o["h"] = o["h"] - 1
    if "hs" in o:
        o["hs"] = [k - 1 for k in o["hs"]]
    if "s" in o:
        o["s"] = o["s"] - 1
    if "with" in o:
        o["with"] = [s - 1 for s in o["with"]]
    if "body" in o:
        o["body"] = [conv_op(b, rot) for b in o["body"]]
    if o.get("o") == "sop":
        ps = PATHS[o.pop("cls")]
        rot[0] += 1
        o["path"] = ps[rot[0] % len(ps)]
        o["w"] = (rot[0] // len(ps)) % 4 != 3
    return o


def cfg_for(i, S, kinds=None, regs=None):
    kinds = kinds or BASIC_KINDS
    ks = [kinds[(i + 3 * j) % len(kinds)] for j in range(S)]
    rs = [REGS[(i // 2 + j) % len(REGS)] for j in range(S)]
    return {"kinds": ks, "reg": rs}


def dedupe_prefixes(scripts):
    """drop scripts that are strict prefixes of another script"""
    import json
    keyed = [tuple(json.dumps(o, sort_keys=True) for o in s) for s in scripts]
    pref = set()
    for k in keyed:
        for n in range(1, len(k)):
            pref.add(k[:n])
    seen = set()
    res = []
    for s, k in zip(scripts, keyed):
        if k in pref or k in seen:
            continue
        seen.add(k)
        res.append(s)
    return res


def from_tlc(tlc_scripts, S, tid0, variants=1, kinds=None):
    res = []
    tid = tid0
    for i, sc in enumerate(dedupe_prefixes(tlc_scripts)):
        for v in range(variants):
            rot = [i * 7 + v * 3]
            ops = [conv_op(o, rot) for o in sc]
            res.append({"tid": tid, "cfg": cfg_for(i + v * 5, S, kinds), "ops": ops, "sweep": "full"})
            tid += 1
    return res


# ------------------------------------------------------------ random driver
class Gen:
    """Random op scripts. Keeps a *rough* picture of the world only to bias the
    choice of handles (towards interesting stale ones) and to bound the number of
    live entities; it is not an oracle and may be wrong without harm."""

    def __init__(self, rng, S, max_live=14, profile="mixed"):
        self.r = rng
        self.S = S
        self.nh = 0
        self.live = set()
        self.doomed = set()
        self.dead = []
        self.queue = []  # pending lazy closures: list of bodies (for handle counting)
        self.max_live = max_live
        self.profile = profile

    def _new(self, doomed=False):
        k = self.nh
        self.nh += 1
        (self.doomed if doomed else self.live).add(k)
        return k

    def pick(self, stale_bias=0.35):
        if self.nh == 0:
            return None
        r = self.r.random()
        if r < stale_bias and self.dead:
            # prefer recently dead handles (their index is likely reused)
            return self.r.choice(self.dead[-12:])
        pool = list(self.live | self.doomed)
        if pool and r < 0.93:
            return self.r.choice(pool)
        return self.r.randrange(self.nh)

    def withs(self):
        w = [s for s in range(self.S) if self.r.random() < 0.5]
        if w and self.r.random() < 0.15:
            w.append(self.r.choice(w))          # the same component type twice in one builder chain (the later one wins)
        return w

    def _kill(self, k):
        if k in self.live or k in self.doomed:
            self.live.discard(k)
            self.doomed.discard(k)
            self.dead.append(k)

    def simple_op(self, in_body=False):
        r = self.r
        nlive = len(self.live) + len(self.doomed)
        x = r.random()
        want_create = nlive < 2 or (nlive < self.max_live and x < 0.30)
        if self.profile == "churn":
            want_create = nlive < 2 or (nlive < self.max_live and x < 0.45)
        if self.profile == "store":
            want_create = nlive < 3 or (nlive < self.max_live and x < 0.12)
        if want_create:
            c = r.random()
            if c < 0.30:
                return {"o": "create", "with": self.withs()}, ("new", False)
            if c < 0.36:
                return {"o": "create_unchecked", "with": self.withs()}, ("new", False)
            if c < 0.44:
                return {"o": "create_iter", "n": r.randint(1, 3)}, ("newn", None)
            if c < 0.52:
                return {"o": "create_drop", "with": self.withs()}, ("new", True)
            if c < 0.66:
                return {"o": "ecreate"}, ("new", False)
            if c < 0.72:
                return {"o": "ecreate_iter", "n": r.randint(1, 3)}, ("newn", None)
            if c < 0.82:
                return {"o": "ebuild", "with": self.withs()}, ("new", False)
            if c < 0.88:
                return {"o": "ebuild_drop", "with": self.withs()}, ("new", True)
            return {"o": "lcreate", "with": self.withs()}, ("new", False)
        y = r.random()
        if self.profile == "churn":
            y = y * 0.42
        if self.profile == "store" and y < 0.42 and r.random() < 0.6:
            y = 0.42 + r.random() * 0.58
        if y < 0.14:
            k = self.pick(0.2)
            return {"o": "delete", "h": k}, ("kill", [k])
        if y < 0.24:
            n = r.randint(1, 4)
            hs = [self.pick(0.25) for _ in range(n)]
            if r.random() < 0.3 and hs:
                hs.insert(r.randrange(len(hs) + 1), r.choice(hs))
            return {"o": "delete_batch", "hs": hs}, ("batch", hs)
        if y < 0.36:
            k = self.pick(0.2)
            return {"o": "edelete", "h": k}, ("doom", k)
        if y < 0.375 and not in_body:
            return {"o": "delete_all"}, ("all", None)
        if y < 0.42 and (not in_body or r.random() < 0.15):
            # (inside a lazy action: a nested maintain, which drains the rest of the queue at once)
            return {"o": "maintain"}, ("maintain", None)
        if self.S == 0:
            return {"o": "ecreate"}, ("new", False)
        if y < 0.80:
            s = r.randrange(self.S)
            p = r.choice(ALL_PATHS)
            return {"o": "sop", "path": p, "s": s, "h": self.pick(), "w": r.random() < 0.8}, None
        if y < 0.86:
            return {"o": "linsert", "s": r.randrange(self.S), "h": self.pick()}, None
        if y < 0.89:
            n = r.randint(1, 3)
            return {"o": "linsert_all", "s": r.randrange(self.S), "hs": [self.pick() for _ in range(n)]}, None
        if y < 0.93:
            return {"o": "lremove", "s": r.randrange(self.S), "h": self.pick()}, None
        if self.profile == "store" or y < 0.95:
            return self.wop(), None
        return None, None

    def wop(self):
        r = self.r
        s = r.randrange(self.S)
        k = r.choice(["drain", "drain", "clear", "count", "join", "join", "joinmut", "joinmut", "joinmut", "joinent",
                      "entries", "restrict", "restrict", "restrict", "slice", "slicemut", "setemit", "setemit", "flagev", "newreader"])
        op = {"o": "wop", "k": k, "s": s}
        if k == "drain":
            op["n"] = r.choice([-1, -1, 0, 1, 2, 3])
            if op["n"] < 0:
                op["v"] = r.choice(["join", "count", "for_each"])
        elif k == "clear" and r.random() < 0.6:
            op["k"] = "count"
        elif k == "join":
            op["v"] = r.choice(["join", "lend", "lend_for_each", "par"])
        elif k == "joinmut":
            op["v"] = r.choice(["join", "lend", "par"])
            op["sel"] = 0xffff
            op["wsel"] = r.choice([0xffff, 0, r.randrange(1 << 16), r.randrange(1 << 16)])
        elif k == "restrict":
            op["v"] = r.choice(["read", "read_lend", "read_par", "mut_join", "mut_lend", "mut_par"])
            op["sel"] = r.choice([0xffff, 0, r.randrange(1 << 16), r.randrange(1 << 16)])
            op["wsel"] = r.choice([0xffff, 0, r.randrange(1 << 16)])
        elif k == "slicemut":
            op["sel"] = 0xffff
            op["wsel"] = r.randrange(1 << 16)
        elif k == "setemit":
            op["b"] = r.random() < 0.6
        elif k == "flagev":
            op["ev"] = r.choice(["M", "M", "I", "R"])
            op["id"] = r.choice([0, 1, 2, 3, 5, 64, 4096])
        return op

    def apply(self, eff):
        if eff is None:
            return
        kind, arg = eff
        if kind == "new":
            self._new(arg)
        elif kind == "kill":
            for k in arg:
                if k is not None:
                    self._kill(k)
        elif kind == "batch":
            for k in arg:
                if k is None or k in self.dead or k >= self.nh:
                    break
                self._kill(k)
        elif kind == "doom":
            if arg in self.live:
                self.live.discard(arg)
                self.doomed.add(arg)
        elif kind == "all":
            for k in list(self.live | self.doomed):
                self._kill(k)

    def body(self, depth):
        ops = []
        effs = []
        for _ in range(self.r.randint(0, 3)):
            op, eff = self.simple_op(in_body=True)
            if op is None:
                if depth < 2:
                    b = self.body(depth + 1)
                    ops.append({"o": self.r.choice(["lexec", "lexec_mut"]), "body": b[0]})
                    effs.append(("queue", b))
                continue
            if any(v is None for k, v in op.items() if k == "h"):
                continue
            if "hs" in op and any(v is None for v in op["hs"]):
                continue
            ops.append(op)
            effs.append(eff)
        return ops, effs

    def run_effects(self, ops, effs):
        for op, eff in zip(ops, effs):
            if eff and eff[0] == "queue":
                self.queue.append(eff[1])
            elif eff and eff[0] == "newn":
                for _ in range(op["n"]):
                    self._new(False)
            else:
                self.apply(eff)

    FAR = [0, 1, 2, 31, 32, 63, 64, 65, 127, 128, 4031, 4032, 4095, 4096, 4097, 8191]
    FARTHER = [258047, 258048, 262143, 262144, 262145]

    def script(self, n_ops, far=0):
        ops = []
        if far:
            pool = self.FAR + (self.FARTHER if far > 1 else [])
            keep = sorted(self.r.sample(pool, self.r.randint(4, 9)))
            ops.append({"o": "prealloc", "n": keep[-1] + 1, "keep": keep})
            for _ in keep:
                self._new(False)
        while len(ops) < n_ops:
            op, eff = self.simple_op()
            if op is None:
                b = self.body(0)
                ops.append({"o": self.r.choice(["lexec", "lexec_mut"]), "body": b[0]})
                self.queue.append(b)
                continue
            if "h" in op and op["h"] is None:
                continue
            if "hs" in op and any(v is None for v in op["hs"]):
                continue
            ops.append(op)
            if eff and eff[0] == "maintain":
                for k in list(self.doomed):
                    self._kill(k)
                while self.queue:
                    b = self.queue.pop(0)
                    self.run_effects(b[0], b[1])
            elif eff and eff[0] == "newn":
                for _ in range(op["n"]):
                    self._new(False)
            else:
                self.apply(eff)
        if self.r.random() < 0.7:
            ops.append({"o": "maintain"})
        return ops


def random_scripts(seed, n, n_ops, S_choices, tid0, profile="mixed", sweep="full", kinds=None, max_live=14, far=0):
    res = []
    for i in range(n):
        rng = random.Random((seed * 1000003 + i * 7919 + zlib.crc32(profile.encode()) % 1000) & 0xFFFFFFFF)
        S = S_choices[i % len(S_choices)]
        g = Gen(rng, S, max_live=max_live, profile=profile)
        ops = g.script(n_ops, far=(far if i % 3 == 0 else 0))
        cfg = cfg_for(rng.randrange(1000), S, kinds or KINDS)
        for j, k in enumerate(cfg["kinds"]):
            if k[:2] in ("f_", "d_", "pf") and rng.random() < 0.25 and len(ops) > 12:
                # no reader of this storage's events at set-up: one registers somewhere in the history
                cfg["reg"][j] += "+late"
                pos = rng.randrange(6, len(ops))
                while pos < len(ops) and ops[pos - 1].get("o") == "fault":
                    pos += 1
                ops.insert(pos, {"o": "wop", "k": "newreader", "s": j})
        res.append({"tid": tid0 + i, "cfg": cfg, "ops": ops, "sweep": sweep})
    return res


def lazy_flood_scripts(seed, n, tid0, kinds=None):
    """many (70-200) lazy actions queued before ONE maintain - inserts and removals on few entities with
    distinct values, so that the order of application is visible in the result - some of them closures
    that queue further actions (which must run after everything queued before them)"""
    res = []
    kinds = kinds or [k for k in KINDS if not k.endswith("null")]
    for i in range(n):
        rng = random.Random((seed * 2654435761 + i * 40503) & 0xFFFFFFFF)
        S = rng.choice([1, 2])
        ne = rng.randint(2, 4)
        ops = [{"o": "create", "with": [s for s in range(S) if rng.random() < 0.5]} for _ in range(ne)]
        for frame in range(rng.randint(1, 2)):
            only_mut = rng.random() < 0.25          # a frame that queues through exec_mut only
            for _ in range(rng.choice([70, 100, 140, 200]) if not only_mut else rng.randint(1, 4)):
                x = rng.random()
                if only_mut:
                    ops.append({"o": "lexec_mut", "body": [{"o": "sop", "path": "insert", "s": rng.randrange(S), "h": rng.randrange(ne)}]})
                elif x < 0.55:
                    ops.append({"o": "linsert", "s": rng.randrange(S), "h": rng.randrange(ne)})
                elif x < 0.75:
                    ops.append({"o": "lremove", "s": rng.randrange(S), "h": rng.randrange(ne)})
                elif x < 0.82:
                    ops.append({"o": "linsert_all", "s": rng.randrange(S), "hs": [rng.randrange(ne) for _ in range(rng.randint(1, 3))]})
                else:
                    body = [{"o": rng.choice(["linsert", "lremove"]), "s": rng.randrange(S), "h": rng.randrange(ne)} for _ in range(rng.randint(1, 2))]
                    if rng.random() < 0.3:
                        body.append({"o": "sop", "path": "insert", "s": rng.randrange(S), "h": rng.randrange(ne)})
                    ops.append({"o": rng.choice(["lexec", "lexec_mut"]), "body": body})
            ops.append({"o": "maintain"})
        res.append({"tid": tid0 + i, "cfg": cfg_for(rng.randrange(1000), S, kinds), "ops": ops, "sweep": "full"})
    return res


def gen_churn_scripts(seed, n, tid0, kinds=None):
    """few entities, but some indices recycled hundreds of times (generations far
    beyond anything short histories reach) and large batches (hundreds of entities
    created / deleted at once), followed by ordinary random operations that prefer
    the stale handles of the recycled indices"""
    res = []
    kinds = kinds or KINDS
    for i in range(n):
        rng = random.Random((seed * 15485863 + i * 32452843) & 0xFFFFFFFF)
        S = rng.choice([1, 1, 2])
        g = Gen(rng, S, max_live=10, profile="mixed")
        ops = []

        def emit(op, eff):
            ops.append(op)
            if eff and eff[0] == "newn":
                for _ in range(op["n"]):
                    g._new(False)
            elif eff and eff[0] == "maintain":
                for k in list(g.doomed):
                    g._kill(k)
            else:
                g.apply(eff)

        for _ in range(rng.randint(1, 3)):
            emit({"o": "create", "with": g.withs()}, ("new", False))
        mode = i % 3
        if mode in (0, 1):
            rounds = rng.choice([70, 140, 270] if mode == 0 else [40, 520])
            for r in range(rounds):
                c = rng.random()
                if c < 0.5:
                    emit({"o": "create", "with": g.withs()}, ("new", False))
                elif c < 0.8:
                    emit({"o": "ecreate"}, ("new", False))
                else:
                    emit({"o": "ebuild", "with": g.withs()}, ("new", False))
                k = g.nh - 1
                d = rng.random()
                if d < 0.6:
                    emit({"o": "delete", "h": k}, ("kill", [k]))
                elif d < 0.8:
                    emit({"o": "delete_batch", "hs": [k]}, ("batch", [k]))
                else:
                    emit({"o": "edelete", "h": k}, ("doom", k))
                    emit({"o": "maintain"}, ("maintain", None))
                if r % 37 == 5:
                    # look at an early generation of the recycled index
                    old = rng.choice(g.dead[: max(1, len(g.dead) // 3)])
                    emit({"o": "sop", "path": rng.choice(ALL_PATHS), "s": rng.randrange(S), "h": old, "w": True}, None)
        else:
            nb = rng.choice([70, 130, 300])
            emit({"o": rng.choice(["create_iter", "ecreate_iter"]), "n": nb}, ("newn", None))
            first = g.nh - nb
            hs = list(range(first, first + nb))
            rng.shuffle(hs)
            cut = rng.randint(nb // 2, nb - 3)
            for h in hs[cut:cut + 6]:
                emit({"o": "sop", "path": rng.choice(PATHS["insert"]), "s": rng.randrange(S), "h": h}, None)
            if i % 2:
                # mass unload: everything of the batch except a few of its lowest indices goes at once
                gone = sorted(hs)[rng.randint(0, 3):]
                rng.shuffle(gone)
                emit({"o": "delete_batch", "hs": gone}, ("batch", gone))
            else:
                emit({"o": "delete_batch", "hs": hs[:cut]}, ("batch", hs[:cut]))
            emit({"o": "maintain"}, ("maintain", None))
            emit({"o": rng.choice(["create_iter", "ecreate_iter"]), "n": rng.randint(2, 5)}, ("newn", None))
            emit({"o": "maintain"}, ("maintain", None))
            emit({"o": "create_iter", "n": rng.randint(1, 3)}, ("newn", None))
        for _ in range(40):
            op, eff = g.simple_op()
            if op is None or ("h" in op and op["h"] is None) or ("hs" in op and any(v is None for v in op["hs"])):
                continue
            if op["o"] in ("lexec", "lexec_mut"):
                continue
            emit(op, eff)
        ops.append({"o": "maintain"})
        res.append({"tid": tid0 + i, "cfg": cfg_for(rng.randrange(1000), S, kinds), "ops": ops, "sweep": "full"})
    return res


def kind_churn_scripts(seed, per_kind, n_ops, tid0, kinds=None, far=False):
    """one storage, a handful of fixed live entities, long runs of insert / remove /
    clear / drain / lookups: exercises the internal bookkeeping of each storage
    kind (dense tables, default fillers, uninitialised slots) over long histories"""
    res = []
    kinds = kinds or KINDS
    tid = tid0
    for ki, kind in enumerate(kinds):
        for j in range(per_kind):
            rng = random.Random((seed * 7919 + ki * 104729 + j * 31) & 0xFFFFFFFF)
            pool = [0, 1, 2, 3, 4, 5, 6, 7] if not (far and j % 2) else [0, 1, 63, 64, 65, 127, 128, 4095, 4096]
            if j % 3 == 2 and ki % 2 == 0:
                # every member beyond the first group of the top layer (64^3 indices): nothing below 262144
                pool = [262144, 262145, 262207, 266240, 270000, 300000]
            keep = sorted(rng.sample(pool, rng.randint(3, 6)))
            if j % 5 == 0:
                keep = list(range(rng.randint(3, 6)))        # no gaps: every index up to the highest holds an entity
            nh = len(keep)
            ops = [{"o": "prealloc", "n": keep[-1] + 1, "keep": keep}]
            for _ in range(n_ops):
                x = rng.random()
                h = rng.randrange(nh)
                if x < 0.30:
                    ops.append({"o": "sop", "path": rng.choice(PATHS["insert"] + ["or_insert"]), "s": 0, "h": h})
                elif x < 0.55:
                    ops.append({"o": "sop", "path": rng.choice(PATHS["remove"]), "s": 0, "h": h})
                elif x < 0.62:
                    ops.append({"o": "wop", "k": "clear", "s": 0})
                elif x < 0.67:
                    ops.append({"o": "wop", "k": "drain", "s": 0, "n": rng.choice([-1, -1, 1, 2]), "v": rng.choice(["join", "count", "for_each"])})
                elif x < 0.80:
                    ops.append({"o": "sop", "path": rng.choice(PATHS["read"]), "s": 0, "h": h})
                elif x < 0.88:
                    ops.append({"o": "sop", "path": rng.choice(PATHS["write"] + ["gmod"] + PATHS["replace"]), "s": 0, "h": h, "w": rng.random() < 0.8})
                elif x < 0.91:
                    ops.append({"o": "wop", "k": "joinmut", "s": 0, "v": rng.choice(["join", "lend", "par"]), "sel": 0xffff, "wsel": rng.randrange(1 << 16)})
                elif x < 0.97:
                    ops.append({"o": "wop", "k": rng.choice(["slice", "slice", "slicemut", "join", "count", "restrict", "entries", "joinent"]), "s": 0,
                                "v": rng.choice(["read", "mut_join", "mut_lend", "lend", "join"]), "sel": rng.randrange(1 << 16), "wsel": rng.randrange(1 << 16)})
                elif x < (0.985 if kind[:2] not in ("f_", "d_", "pf") else 0.995):
                    if rng.random() < 0.7:
                        # (also redundant switches: off, off, on)
                        for _ in range(rng.choice([1, 1, 2, 3])):
                            ops.append({"o": "wop", "k": "setemit", "s": 0, "b": rng.random() < 0.5})
                    else:
                        ops.append({"o": "wop", "k": "flagev", "s": 0, "ev": rng.choice(["M", "I", "R"]), "id": rng.choice(keep)})
                elif j % 4 == 1:
                    ops.append({"o": "oob_insert", "s": 0})
            reg = REGS[j % len(REGS)]
            if kind[:2] in ("f_", "d_", "pf") and j % 3 == 1:
                # no reader at set-up: the first one registers after the storage has been in use for a while,
                # another one later on
                reg += "+late"
                for pos in sorted({rng.randrange(5, max(6, len(ops) // 2)), rng.randrange(5, len(ops) + 1)}, reverse=True):
                    ops.insert(pos, {"o": "wop", "k": "newreader", "s": 0})
            res.append({"tid": tid, "cfg": {"kinds": [kind], "reg": [reg]}, "ops": ops, "sweep": "full"})
            tid += 1
    return res


def fault_scripts(seed, n, tid0, kinds=None):
    """C19: short histories in which the k-th destructor call of a destroying
    operation panics (for every storage kind, every destroying operation, k = first,
    k-th, last), followed by further operations on the other entities / storages and
    by teardown (optionally with a panicking destructor as well)."""
    kinds = kinds or KINDS
    res = []
    DESTROY = ["clear", "delete", "delete_batch", "delete_all", "edelete_maintain", "insert_dead", "or_insert_occ",
               "lazy_remove", "drain_partial", "remove", "overwrite", "lazy_overwrite", "builder_twice"]
    for i in range(n):
        rng = random.Random((seed * 48271 + i * 101) & 0xFFFFFFFF)
        S = rng.choice([1, 2, 2, 3])
        ks = [kinds[(i + 7 * j + rng.randrange(3)) % len(kinds)] for j in range(S)]
        ne = rng.randint(3, 7)
        ops = []
        for e in range(ne):
            ops.append({"o": "create", "with": [s for s in range(S) if rng.random() < 0.8]})
        nh = ne
        live = set(range(ne))
        for _ in range(rng.randint(0, 4)):
            ops.append({"o": "sop", "path": rng.choice(["insert", "remove", "get_mut"]), "s": rng.randrange(S), "h": rng.randrange(nh)})
        nf = rng.choice([1, 1, 2])
        for f in range(nf):
            d = DESTROY[(i + f * 5) % len(DESTROY)]
            k = rng.choice([1, 1, 2, 2, 3, 4, 6])
            s = rng.randrange(S)
            if d == "clear":
                inner = {"o": "wop", "k": "clear", "s": s}
            elif d == "delete":
                h = rng.choice(sorted(live)) if live else 0
                inner = {"o": "delete", "h": h}
                live.discard(h)
            elif d == "delete_batch":
                hs = rng.sample(sorted(live), min(len(live), rng.randint(1, 3))) if live else [0]
                inner = {"o": "delete_batch", "hs": hs}
                live -= set(hs)
            elif d == "delete_all":
                inner = {"o": "delete_all"}
                live = set()
            elif d == "edelete_maintain":
                hs = rng.sample(sorted(live), min(len(live), rng.randint(1, 3))) if live else [0]
                for h in hs:
                    ops.append({"o": "edelete", "h": h})
                live -= set(hs)
                inner = {"o": "maintain"}
            elif d == "insert_dead":
                dead = [h for h in range(nh) if h not in live]
                if not dead:
                    h = rng.choice(sorted(live)) if live else 0
                    ops.append({"o": "delete", "h": h})
                    live.discard(h)
                    dead = [h]
                inner = {"o": "sop", "path": "insert", "s": s, "h": rng.choice(dead)}
            elif d == "or_insert_occ":
                inner = {"o": "sop", "path": rng.choice(["or_insert", "or_insert_with"]), "s": s, "h": rng.choice(sorted(live)) if live else 0}
            elif d in ("lazy_remove", "lazy_overwrite"):
                # the destructor panics inside a queued lazy action (nothing else is pending at that maintain)
                ops.append({"o": "maintain"})
                h = rng.choice(sorted(live)) if live else 0
                ops.append({"o": "lremove" if d == "lazy_remove" else "linsert", "s": s, "h": h})
                if rng.random() < 0.5:
                    ops.append({"o": "linsert", "s": rng.randrange(S), "h": rng.choice(sorted(live)) if live else 0})
                inner = {"o": "maintain"}
                k = 1
            elif d == "drain_partial":
                inner = {"o": "wop", "k": "drain", "s": s, "n": rng.choice([1, 2, -1])}
            elif d == "builder_twice":
                # an entity builder names one component type twice: the second value replaces the first, whose
                # destructor panics - the chain is interrupted and the builder is dropped by the unwinding
                inner = {"o": rng.choice(["ebuild", "ebuild_drop"]), "with": [x for x in range(S) if x != s and rng.random() < 0.5] + [s, s]}
                k = 1
            elif d == "remove":
                # (every way of removing one component, the generic ones that destroy it inside the library too)
                inner = {"o": "sop", "path": rng.choice(PATHS["remove"]), "s": s, "h": rng.choice(sorted(live)) if live else 0}
            elif d == "overwrite":
                inner = {"o": "sop", "path": rng.choice(PATHS["insert"] + PATHS["replace"]), "s": s, "h": rng.choice(sorted(live)) if live else 0}
            else:
                inner = {"o": "wop", "k": "clear", "s": s}
            ops.append({"o": "fault", "k": k, "op": inner})
            # the world must remain usable: operations on the other entities and storages (no creations)
            for _ in range(rng.randint(2, 8)):
                x = rng.random()
                hpool = sorted(live) if live else list(range(nh))
                if x < 0.55:
                    ops.append({"o": "sop", "path": rng.choice(ALL_PATHS), "s": rng.randrange(S), "h": rng.choice(hpool), "w": rng.random() < 0.7})
                elif x < 0.8:
                    ops.append({"o": "wop", "k": rng.choice(["join", "joinmut", "count", "slice", "restrict", "entries", "joinent"]),
                                "s": rng.randrange(S), "v": rng.choice(["join", "lend", "read", "mut_lend"]), "sel": 0xffff, "wsel": rng.randrange(1 << 16)})
                elif x < 0.9 and live:
                    h = rng.choice(sorted(live))
                    ops.append({"o": "delete", "h": h})
                    live.discard(h)
                else:
                    ops.append({"o": "maintain"})
            if d == "builder_twice":
                # the deletion the dropped builder asked for takes effect here
                ops.append({"o": "maintain"})
                ops.append({"o": "wop", "k": "count", "s": s})
        sc = {"tid": tid0 + i, "cfg": {"kinds": ks, "reg": [REGS[(i + j) % len(REGS)] for j in range(S)]}, "ops": ops, "sweep": "full"}
        if rng.random() < 0.35:
            sc["fault_teardown"] = rng.choice([1, 2, 3])
        res.append(sc)
    return res


def fault_churn_scripts(seed, per_kind, tid0, kinds=None):
    """C19, bulk destruction interrupted: fill one storage, let the k-th destructor of
    clear / delete_all / maintain / drain panic, then keep using *that* storage for a
    long time (insert / remove / lookups / joins) before teardown: stale internal tables
    left behind by the interrupted bulk operation surface only later."""
    kinds = kinds or KINDS
    res = []
    tid = tid0
    for ki, kind in enumerate(kinds):
        for j in range(per_kind):
            rng = random.Random((seed * 69621 + ki * 1009 + j * 17) & 0xFFFFFFFF)
            ne = rng.randint(3, 6)
            ops = [{"o": "create", "with": [0] if rng.random() < 0.85 else []} for _ in range(ne)]
            bulk = ["clear", "clear", "delete_some", "drain", "edelete_maintain"][j % 5]
            k = [1, 2, 3, 1, 2, 4][j % 6]
            live = list(range(ne))
            if bulk == "clear":
                inner = {"o": "wop", "k": "clear", "s": 0}
            elif bulk == "drain":
                inner = {"o": "wop", "k": "drain", "s": 0, "n": -1}
                k = 1
            elif bulk == "delete_some":
                hs = rng.sample(live, max(1, ne // 2))
                inner = {"o": "delete_batch", "hs": hs}
                live = [h for h in live if h not in hs]
            else:
                hs = rng.sample(live, max(1, ne // 2))
                for h in hs:
                    ops.append({"o": "edelete", "h": h})
                live = [h for h in live if h not in hs]
                inner = {"o": "maintain"}
            ops.append({"o": "fault", "k": k, "op": inner})
            if not live:
                live = [0]
            for _ in range(rng.randint(25, 50)):
                x = rng.random()
                h = rng.choice(live)
                if x < 0.35:
                    ops.append({"o": "sop", "path": rng.choice(PATHS["insert"]), "s": 0, "h": h})
                elif x < 0.62:
                    ops.append({"o": "sop", "path": rng.choice(PATHS["remove"]), "s": 0, "h": h})
                elif x < 0.85:
                    ops.append({"o": "sop", "path": rng.choice(PATHS["read"] + PATHS["write"]), "s": 0, "h": h, "w": rng.random() < 0.7})
                elif x < 0.95:
                    ops.append({"o": "wop", "k": rng.choice(["join", "joinmut", "count", "slice"]), "s": 0, "v": rng.choice(["join", "lend"]), "sel": 0xffff, "wsel": rng.randrange(1 << 16)})
                else:
                    ops.append({"o": "fault", "k": rng.choice([1, 2]), "op": {"o": "wop", "k": "clear", "s": 0}})
            res.append({"tid": tid, "cfg": {"kinds": [kind], "reg": [REGS[j % len(REGS)]]}, "ops": ops, "sweep": "full"})
            tid += 1
    return res
