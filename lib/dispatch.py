"""Dispatch domain (C11): the declared-vs-borrowed table of every storage
handle type extracted from the real code, TLC on the Dispatch model for all
small graphs built from that table, and random graphs of instrumented systems
run on the real dispatcher with pools of 1..64 threads; TLC validates each
logged dispatch against Dispatch!Check."""
import itertools
import json
import os
import random

from . import common as C

NSHAPES = 20
# what each shape declares = borrows when the code is right (mirror of dispatch_dom.rs)
RW = {
    0: (["Entities", "A"], []), 1: (["Entities"], ["A"]), 2: (["Entities", "A", "B"], []),
    3: (["Entities", "B"], ["A"]), 4: (["Entities", "A"], ["B"]), 5: (["Entities"], ["B", "C"]),
    6: (["Entities", "C"], []), 7: (["Entities", "Lazy"], ["C"]), 8: (["Entities"], ["Z"]),
    9: (["Entities", "Z"], []), 10: ([], ["Entities"]), 11: (["Entities", "B", "C"], []),
}


def tla_set(xs):
    return "{" + ", ".join('"%s"' % x if isinstance(x, str) else str(x) for x in xs) + "}"


def tla_fun(d):
    return "(" + " @@ ".join("%d :> %s" % (k, v) for k, v in sorted(d.items())) + ")" if d else "<<>>"


def graphs_module(tier):
    """all graphs of <= 3 systems over the shape menu with <= 2 dependency edges"""
    shapes = [0, 1, 3, 4, 5, 7, 8, 10] if tier == "quick" else list(RW)
    gs = []
    for n in (2, 3):
        for combo in itertools.combinations_with_replacement(shapes, n):
            edge_sets = [()]
            pairs = [(a, b) for a in range(1, n + 1) for b in range(a + 1, n + 1)]
            edge_sets += [(p,) for p in pairs]
            if tier != "quick":
                edge_sets += list(itertools.combinations(pairs, 2))
            for es in edge_sets:
                deps = {i: set() for i in range(1, n + 1)}
                for a, b in es:
                    deps[b].add(a)
                gs.append((combo, deps))
    recs = []
    for combo, deps in gs:
        dr = {i + 1: tla_set(RW[s][0]) for i, s in enumerate(combo)}
        dw = {i + 1: tla_set(RW[s][1]) for i, s in enumerate(combo)}
        dp = {i: tla_set(sorted(v)) for i, v in deps.items()}
        recs.append("[declR |-> %s, declW |-> %s, actR |-> %s, actW |-> %s, deps |-> %s]"
                    % (tla_fun(dr), tla_fun(dw), tla_fun(dr), tla_fun(dw), tla_fun(dp)))
    body = "---- MODULE Dispatch_MC ----\nEXTENDS Dispatch\nGraphsDef == {\n  " + ",\n  ".join(recs) + "}\n====\n"
    d = os.path.join(C.OUT, "cfg", "p%d" % os.getpid())
    os.makedirs(d, exist_ok=True)
    open(os.path.join(d, "Dispatch.tla"), "w").write(open(os.path.join(C.SPEC, "Dispatch.tla")).read())
    open(os.path.join(d, "Dispatch_MC.tla"), "w").write(body)
    open(os.path.join(d, "Dispatch_MC.cfg"), "w").write(
        "SPECIFICATION MSpec\nCONSTANTS\n  Graphs <- GraphsDef\nINVARIANT NoWriterOverlap\nPROPERTY AllRun\nCHECK_DEADLOCK FALSE\n")
    return d, len(recs)


def check(prop, tier, seed):
    params = {"tier": tier}
    key = C.suite_key("dispatch", params, seed, tier)
    hit = C.cache_get(key)
    if hit is not None:
        hit["cache_hit"] = True
        return [hit]
    rng = random.Random(seed * 131 + 3)
    res = {"suite": "dispatch", "kind": "table+mc+random graphs", "params": params, "cache_hit": False}
    res["rule"] = "the declared-vs-borrowed table extracted from the real code, random system graphs (2-12 systems, 16 SystemData shapes, dependencies, barriers) x pool sizes 1..64 x 1-5 rounds, all shape pairs run side by side, stages of systems creating entities through the shared entities resource at once (handles distinct); one logged dispatch per case checked by TLC against Dispatch!Check"
    d, ngraphs = graphs_module(tier)
    md = os.path.join(C.OUT, "md", "disp%d" % os.getpid())
    p = C.sh(["timeout", "900", "tlc", "-workers", "4", "-metadir", md, "-cleanup", "-noGenerateSpecTE",
              "-config", "Dispatch_MC.cfg", "Dispatch_MC.tla"], cwd=d, env={"JAVA_TOOL_OPTIONS": "-Xss1g"}, timeout=930)
    C.sh(["rm", "-rf", md])
    if "Model checking completed. No error has been found." not in p.stdout:
        raise C.ToolError("TLC on Dispatch_MC did not complete cleanly:\n" + p.stdout[-3000:])
    res["mc"] = C.tlc_stats(p.stdout) or {}
    res["mc"]["graphs"] = ngraphs
    scripts = [{"tid": 51000000, "kind": "table"}]
    tid = 51000001
    pools = [1, 2, 3, 4, 8, 16, 64]
    for i in range(120 if tier == "quick" else 3000):
        n = rng.randint(2, 12)
        systems = []
        for k in range(n):
            deps = [j for j in range(k) if rng.random() < 0.15]
            systems.append({"shape": rng.randrange(NSHAPES), "deps": deps, "barrier": k > 0 and rng.random() < 0.08,
                            "spin": rng.choice([1, 1, 2, 4, 6])})
        scripts.append({"tid": tid, "kind": "dispatch", "systems": systems, "threads": pools[i % len(pools)],
                        "rounds": rng.randint(1, 5), "async": i % 4 == 3})
        tid += 1
    # pairs that must not overlap, many rounds, with enough threads
    for a in range(NSHAPES):
        for b in range(a, NSHAPES):
            scripts.append({"tid": tid, "kind": "dispatch", "threads": 4, "rounds": 4 if tier == "quick" else 12,
                            "systems": [{"shape": a, "deps": [], "spin": 5}, {"shape": b, "deps": [], "spin": 5},
                                        {"shape": a, "deps": [], "spin": 3}]})
            tid += 1
    # many systems of one stage that really use what they share: lazy queuing from all of them at
    # once, and several readers of the same storages fetching while the others are running
    for th in ([2, 4, 8, 16] if tier == "quick" else [2, 3, 4, 8, 16, 32, 64]):
        for rep in range(2 if tier == "quick" else 10):
            scripts.append({"tid": tid, "kind": "dispatch", "threads": th, "rounds": 6,
                            "systems": [{"shape": 19, "deps": [], "spin": rng.choice([2, 6])} for _ in range(6)]
                                       + [{"shape": 14, "deps": [], "spin": 4}, {"shape": 7, "deps": [], "spin": 4}]})
            tid += 1
            scripts.append({"tid": tid, "kind": "dispatch", "threads": th, "rounds": 6,
                            "systems": [{"shape": rng.choice([0, 2, 11, 6]), "deps": [], "spin": rng.choice([1, 2, 5])} for _ in range(8)]})
            tid += 1
            # a system that leaves a deferred deletion pending, then readers of one storage side by side
            scripts.append({"tid": tid, "kind": "dispatch", "threads": th, "rounds": 4,
                            "systems": [{"shape": 6, "deps": [], "spin": 1}]
                                       + [{"shape": rng.choice([0, 2]), "deps": [0], "spin": rng.choice([2, 5])} for _ in range(6)]})
            tid += 1
    # many systems of one stage creating (and deleting) entities through the shared entities resource at once,
    # over many rounds (from the second round on the creations recycle the indices freed by the round before)
    for th in ([2, 4, 8, 16] if tier == "quick" else [2, 3, 4, 8, 16, 32]):
        for rep in range(3 if tier == "quick" else 20):
            scripts.append({"tid": tid, "kind": "dispatch", "threads": th, "rounds": 12 if tier == "quick" else 30, "async": rep % 3 == 2,
                            "systems": [{"shape": rng.choice([6, 11]), "deps": [], "spin": rng.choice([1, 1, 2])} for _ in range(rng.choice([4, 8, 12]))]})
            tid += 1
    workdir = os.path.join(C.OUT, "work", "%s_%d" % (key, os.getpid()))
    C.sh(["rm", "-rf", workdir])
    r = C.exec_and_validate("dispatch", scripts, workdir, "Dispatch_Trace.tla", "Dispatch_Trace.cfg", events_per_chunk=40)
    res.update(n_scripts=r["n_scripts"], n_events=r["n_events"], wall_s=r["wall_s"])
    bytid = {s["tid"]: s for s in scripts}
    viol, seen = [], set()
    for v in sorted(r["viol"], key=lambda x: (x["p"], x["tid"])):
        if (v["p"], v["tid"], v["m"]) in seen:
            continue
        seen.add((v["p"], v["tid"], v["m"]))
        ent = {"p": v["p"], "tid": v["tid"], "m": v["m"], "d": v["d"][:2000], "line": v["line"]}
        if len(viol) < 8:
            ent["script"] = bytid.get(v["tid"])
        viol.append(ent)
    res["viol"] = viol
    res["samples"] = [scripts[0], scripts[1]]
    C.sh(["rm", "-rf", workdir])
    C.cache_put(key, res)
    return [res]
