"""Save / load domain (C14, C15): all small world contents (marked subsets,
component subsets, reference graphs with self loops, cycles, forward
references) round-tripped through save -> load into an empty world (and again
into the same world, and into the source world), plus random histories of
mark / delete / maintain / allocator maintenance / save / load (own, foreign,
permuted, synthetic data with ids above the counter).  TLC validates every
recorded trace against SaveLoad_L0."""
import itertools
import json
import os
import random

from . import common as C


def content_scripts(tier, rng, tid0):
    scripts = []
    tid = tid0
    for n in (1, 2, 3):
        marked_sets = [ms for k in range(n + 1) for ms in itertools.combinations(range(n), k)]
        ref_choices = [None] + [list(c) for k in range(0, n + 1) for c in itertools.combinations(range(n), k)]
        graphs = list(itertools.product(ref_choices, repeat=n))
        if tier == "quick":
            rng.shuffle(graphs)
            graphs = graphs[:40 if n == 3 else 30]
        elif n == 3:
            rng.shuffle(graphs)
            graphs = graphs[:600]
        for gi, g in enumerate(graphs):
            ms = marked_sets[(gi * 7 + n) % len(marked_sets)]
            if not ms:
                ms = marked_sets[-1] if gi % 5 else ms
            rec = (gi % 3 == 0)
            fmt = ["json", "ron"][gi % 2]
            marker = "uuid" if gi % 4 == 3 else "simple"
            ops = []
            for i in range(n):
                ops.append({"o": "create", "w": 0, "a": (10 + i) if (gi + i) % 3 != 0 else None, "b": -(20 + i) if (gi + i) % 4 != 1 else None})
            for i, r in enumerate(g):
                if r is None:
                    continue
                refs = list(r)
                if (gi + i) % 6 == 0 and refs:
                    refs = refs + [refs[0]]       # the same target twice
                if not rec and i in ms:
                    refs = [t for t in refs if t in ms]      # plain save: references among marked entities only
                ops.append({"o": "set", "w": 0, "h": i, "c": "r", "v": refs})
            for i in ms:
                ops.append({"o": "mark", "w": 0, "h": i})
            if gi % 5 == 1 and ms:
                ops.append({"o": "mark", "w": 0, "h": ms[0]})          # marking twice
            ops.append({"o": "save", "w": 0, "rec": rec, "fmt": fmt})
            perm = list(range(n))
            rng.shuffle(perm)
            ops.append({"o": "load", "w": 1, "blob": 0, "perm": perm if gi % 2 else None, "fmt": fmt if gi % 3 else ["json", "ron"][(gi + 1) % 2]})
            if gi % 2 == 0:
                ops.append({"o": "load", "w": 1, "blob": 0})            # the same data again: no duplicates
            if gi % 3 == 1:
                ops.append({"o": "load", "w": 0, "blob": 0, "perm": perm})   # into the source world: in place
            if gi % 4 == 2:
                ops.append({"o": "save", "w": 1, "rec": False, "fmt": fmt})
                ops.append({"o": "load", "w": 0, "blob": 1})
            scripts.append({"tid": tid, "marker": marker, "worlds": 2, "ops": ops})
            tid += 1
    # larger graphs for the recursive serialiser: several marked roots reaching different unmarked entities
    for gi in range(60 if tier == "quick" else 1500):
        n = rng.choice([4, 5, 6])
        roots = rng.sample(range(n), rng.randint(1, 3))
        ops = [{"o": "create", "w": 0, "a": rng.choice([None, 30 + i]), "b": rng.choice([None, -i])} for i in range(n)]
        for i in range(n):
            if rng.random() < 0.75:
                ops.append({"o": "set", "w": 0, "h": i, "c": "r", "v": [rng.randrange(n) for _ in range(rng.randint(0, 3))]})
        for i in roots:
            ops.append({"o": "mark", "w": 0, "h": i})
        fmt = rng.choice(["json", "ron"])
        ops.append({"o": "save", "w": 0, "rec": True, "fmt": fmt})
        perm = list(range(n))
        rng.shuffle(perm)
        ops.append({"o": "load", "w": 1, "blob": 0, "perm": perm if gi % 2 else None})
        if gi % 3 == 0:
            ops.append({"o": "load", "w": 1, "blob": 0})
        scripts.append({"tid": tid, "marker": "uuid" if gi % 4 == 3 else "simple", "worlds": 2, "ops": ops})
        tid += 1
    # marking twice, then loading data that mentions the ids around the allocator's counter
    for gi in range(40 if tier == "quick" else 400):
        k = rng.randint(1, 4)
        ops = [{"o": "create", "w": 0, "a": 50 + i, "b": None} for i in range(k)]
        ops += [{"o": "mark", "w": 0, "h": i} for i in range(k)]
        for _ in range(rng.randint(1, 2)):
            ops.append({"o": "mark", "w": 0, "h": rng.randrange(k)})
        if gi % 4 == 0:
            ops.append({"o": "amaintain", "w": 0})
        if gi % 5 == 0:
            ops.append({"o": "delete", "w": 0, "h": rng.randrange(k)})
            if gi % 2:
                ops.append({"o": "maintain", "w": 0})
        recs = [{"m": m, "a": 70 + m, "b": rng.choice([None, -m]), "r": rng.choice([None, [rng.randrange(k + 3)]])}
                for m in sorted(rng.sample(range(k + 3), rng.randint(1, 3)))]
        ops.append({"o": "loadsynth", "w": 0, "recs": recs, "fmt": rng.choice(["json", "ron"])})
        ops.append({"o": "create", "w": 0, "a": 1, "b": None})
        ops.append({"o": "mark", "w": 0, "h": k})
        if gi % 2:
            ops.append({"o": "loadsynth", "w": 0, "recs": recs, "fmt": "json"})
        scripts.append({"tid": tid, "marker": "uuid" if gi % 3 == 2 else "simple", "worlds": 1, "ops": ops})
        tid += 1
    # "load game" into the same world: save, delete everything (the world is maintained, the marker
    # allocator is not: its mapping goes stale), load the data back, then once more
    for gi in range(50 if tier == "quick" else 600):
        n = rng.randint(2, 5)
        ops = [{"o": "create", "w": 0, "a": rng.choice([None, 40 + i]), "b": rng.choice([None, -i - 1])} for i in range(n)]
        marked = sorted(rng.sample(range(n), rng.randint(1, n)))
        for i in range(n):
            if rng.random() < 0.7:
                pool = marked if i in marked else list(range(n))
                ops.append({"o": "set", "w": 0, "h": i, "c": "r", "v": [rng.choice(pool) for _ in range(rng.randint(0, 3))]})
        for i in marked:
            ops.append({"o": "mark", "w": 0, "h": i})
        fmt = rng.choice(["json", "ron"])
        ops.append({"o": "save", "w": 0, "rec": False, "fmt": fmt})
        order = list(range(n))
        rng.shuffle(order)
        for i in order:
            ops.append({"o": rng.choice(["delete", "delete", "edelete"]), "w": 0, "h": i})
        ops.append({"o": "maintain", "w": 0})
        if gi % 4 == 3:
            ops.append({"o": "amaintain", "w": 0})
        perm = list(range(len(marked)))
        rng.shuffle(perm)
        ops.append({"o": "load", "w": 0, "blob": 0, "perm": perm if gi % 2 else None})
        ops.append({"o": "load", "w": 0, "blob": 0})
        if gi % 3 == 0:
            ops.append({"o": "save", "w": 0, "rec": False, "fmt": fmt})
            ops.append({"o": "load", "w": 1, "blob": 1})
        scripts.append({"tid": tid, "marker": "uuid" if gi % 2 else "simple", "worlds": 2, "ops": ops})
        tid += 1
    # data with well-known ids (0 = the nil uuid for UuidMarker) that other records refer to, loaded twice
    for gi in range(30 if tier == "quick" else 300):
        k = rng.randint(2, 4)
        ids = sorted(rng.sample(range(0, 6), k))
        if gi % 2 == 0 and 0 not in ids:
            ids[0] = 0
        recs = [{"m": m, "a": 90 + m, "b": rng.choice([None, -m - 1]), "r": rng.choice([None, [rng.choice(ids) for _ in range(rng.randint(1, 3))]])} for m in ids]
        if gi % 3 == 0:
            recs.reverse()
        ops = [{"o": "loadsynth", "w": 0, "recs": recs, "fmt": rng.choice(["json", "ron"])},
               {"o": "loadsynth", "w": 0, "recs": recs, "fmt": "json"},
               {"o": "save", "w": 0, "rec": False, "fmt": "json"},
               {"o": "load", "w": 1, "blob": 0},
               {"o": "load", "w": 1, "blob": 0}]
        scripts.append({"tid": tid, "marker": "uuid" if gi % 3 != 2 else "simple", "worlds": 2, "ops": ops})
        tid += 1
    # gaps in the live marker ids: delete an older marked entity, maintain, allocator maintain, mark again
    for gi in range(40 if tier == "quick" else 400):
        k = rng.randint(2, 5)
        ops = [{"o": "create", "w": 0, "a": 60 + i, "b": None} for i in range(k)]
        ops += [{"o": "mark", "w": 0, "h": i} for i in range(k)]
        victims = rng.sample(range(k - 1), rng.randint(1, max(1, (k - 1) // 2)))
        for v in victims:
            ops.append({"o": rng.choice(["delete", "edelete"]), "w": 0, "h": v})
        ops.append({"o": "maintain", "w": 0})
        if gi % 5 != 4:
            ops.append({"o": "amaintain", "w": 0})
        if gi % 3 == 1:
            ops.append({"o": "aclone", "w": 0})
        for j in range(rng.randint(1, 3)):
            ops.append({"o": "create", "w": 0, "a": 80 + j, "b": None})
            if rng.random() < 0.5:
                ops.append({"o": "set", "w": 0, "h": k + j, "c": "r", "v": [rng.randrange(k + j + 1)]})
            if gi % 2 == 0:
                ops.append({"o": "mark", "w": 0, "h": k + j})
        ops.append({"o": "save", "w": 0, "rec": gi % 2 == 1, "fmt": rng.choice(["json", "ron"])})
        ops.append({"o": "load", "w": 1, "blob": 0})
        scripts.append({"tid": tid, "marker": "simple", "worlds": 2, "ops": ops})
        tid += 1
    # retrieve_entity called directly, with stale allocator mappings: marked entities are deleted (the world
    # is maintained, the allocator only sometimes), then every id is retrieved - a new entity each for the
    # ids whose carrier died, the carrier itself for the others - and once more (now all are carriers)
    for gi in range(40 if tier == "quick" else 400):
        k = rng.randint(1, 5)
        ops = [{"o": "create", "w": 0, "a": 30 + i, "b": None} for i in range(k)]
        ops += [{"o": "mark", "w": 0, "h": i} for i in range(k)]
        victims = rng.sample(range(k), rng.randint(1, k))
        for v in victims:
            ops.append({"o": rng.choice(["delete", "edelete"]), "w": 0, "h": v})
        ops.append({"o": "maintain", "w": 0})
        if gi % 3 == 2:
            ops.append({"o": "amaintain", "w": 0})
        if gi % 4 == 1:
            # the indices of the dead are taken by new (unmarked) entities
            ops += [{"o": "create", "w": 0, "a": 70 + i, "b": None} for i in range(len(victims))]
        ids = list(range(k + 1))
        rng.shuffle(ids)
        ops += [{"o": "retrieve", "w": 0, "m": m} for m in ids]
        ops += [{"o": "retrieve", "w": 0, "m": m} for m in ids[:2]]
        ops.append({"o": "save", "w": 0, "rec": False, "fmt": "json"})
        ops.append({"o": "load", "w": 1, "blob": 0})
        scripts.append({"tid": tid, "marker": "simple", "worlds": 2, "ops": ops})
        tid += 1
    # conversions that fail: marked entities referring to entities without marker (unmarked, dead), saved with the
    # plain serialiser and a reference conversion that reports this as an error - the save must report the error
    # (and must not hand out data with the entity left out); then the references are repaired and the save succeeds
    for gi in range(40 if tier == "quick" else 400):
        n = rng.randint(2, 6)
        ops = [{"o": "create", "w": 0, "a": rng.choice([None, 10 + i]), "b": rng.choice([None, -i - 1])} for i in range(n)]
        marked = sorted(rng.sample(range(n), rng.randint(1, n)))
        for i in marked:
            ops.append({"o": "mark", "w": 0, "h": i})
        for i in range(n):
            if rng.random() < 0.7:
                ops.append({"o": "set", "w": 0, "h": i, "c": "r", "v": [rng.randrange(n) for _ in range(rng.randint(1, 6))]})
        if gi % 3 == 0:
            ops.append({"o": rng.choice(["delete", "edelete"]), "w": 0, "h": rng.randrange(n)})
            ops.append({"o": "maintain", "w": 0})
        fmt = rng.choice(["json", "ron"])
        ops.append({"o": "save", "w": 0, "rec": False, "fmt": fmt})
        ops.append({"o": "load", "w": 1, "blob": 0})
        for i in marked:
            ops.append({"o": "set", "w": 0, "h": i, "c": "r", "v": [rng.choice(marked) for _ in range(rng.randint(0, 3))] if gi % 2 else None})
        ops.append({"o": "save", "w": 0, "rec": False, "fmt": fmt})
        ops.append({"o": "load", "w": 1, "blob": 1})
        scripts.append({"tid": tid, "marker": "uuid" if gi % 5 == 4 else "simple", "worlds": 2, "fallible": True, "ops": ops})
        tid += 1
    # markers taken off by hand and given again (a new id), allocator maintenance, then the old ids come back
    # (retrieved directly or loaded): after the allocator's maintain an id nobody carries means a new entity
    for gi in range(40 if tier == "quick" else 400):
        k = rng.randint(1, 4)
        ops = [{"o": "create", "w": 0, "a": 20 + i, "b": None} for i in range(k)]
        ops += [{"o": "mark", "w": 0, "h": i} for i in range(k)]
        if gi % 3 == 0:
            ops.append({"o": "save", "w": 0, "rec": False, "fmt": "json"})
        vs = rng.sample(range(k), rng.randint(1, k))
        ops += [{"o": "unmark", "w": 0, "h": v} for v in vs]
        ops += [{"o": "mark", "w": 0, "h": v} for v in vs if rng.random() < 0.8]
        if gi % 4 != 3:
            ops.append({"o": "amaintain", "w": 0})
        if gi % 3 == 0:
            ops.append({"o": "load", "w": 0, "blob": 0})
        else:
            ops += [{"o": "retrieve", "w": 0, "m": m} for m in rng.sample(range(k + 2), rng.randint(1, k + 1))]
        ops.append({"o": "mark", "w": 0, "h": 0})
        ops.append({"o": "save", "w": 0, "rec": False, "fmt": "json"})
        # (UuidMarker: the ids are drawn at random, the old ones come back through the saved data)
        scripts.append({"tid": tid, "marker": "uuid" if gi % 6 == 3 else "simple", "worlds": 1, "ops": ops})
        tid += 1
    return scripts


def random_scripts(tier, rng, tid0, n):
    scripts = []
    for i in range(n):
        marker = "uuid" if i % 5 == 4 else "simple"
        nh = [0, 0]
        nblobs = 0
        ops = []
        for _ in range(rng.randint(10, 40 if tier == "quick" else 80)):
            w = rng.randrange(2)
            x = rng.random()
            hk = rng.randrange(nh[w]) if nh[w] else None
            if x < 0.18 or nh[w] == 0:
                y = rng.random()
                if y < 0.65:
                    ops.append({"o": "create", "w": w, "a": rng.choice([None, rng.randrange(100)]), "b": rng.choice([None, -rng.randrange(100)])})
                elif y < 0.80:
                    ops.append({"o": "create_marked", "w": w, "a": rng.choice([None, rng.randrange(100)]), "via": rng.choice(["builder", "res"])})
                elif y < 0.88:
                    ops.append({"o": "lcreate_marked", "w": w, "a": rng.choice([None, rng.randrange(100)]),
                                "premark": rng.random() < 0.4, "twice": rng.random() < 0.3})
                else:
                    ops.append({"o": "ecreate", "w": w})
                nh[w] += 1
            elif x < 0.27:
                ops.append({"o": "mark", "w": w, "h": hk})
            elif x < 0.30:
                ops.append({"o": "unmark", "w": w, "h": hk})
            elif x < 0.42:
                c = rng.choice(["a", "b", "r", "r"])
                if c == "r":
                    v = rng.choice([None, [rng.randrange(nh[w]) for _ in range(rng.randint(0, 3))]])
                elif c == "a":
                    v = rng.choice([None, rng.randrange(100)])
                else:
                    v = rng.choice([None, -rng.randrange(100)])
                ops.append({"o": "set", "w": w, "h": hk, "c": c, "v": v})
            elif x < 0.50:
                ops.append({"o": "delete", "w": w, "h": hk})
            elif x < 0.56:
                ops.append({"o": "edelete", "w": w, "h": hk})
            elif x < 0.63:
                ops.append({"o": "maintain", "w": w})
            elif x < 0.67:
                ops.append({"o": "amaintain", "w": w})
            elif x < 0.69:
                ops.append({"o": "aclone", "w": w})
            elif x < 0.73:
                # the creation path of deserialisation called directly: the carrier of the id, or a new entity
                ops.append({"o": "retrieve", "w": w, "m": rng.randrange(8)})
                nh[w] += 1
            elif x < 0.80:
                ops.append({"o": "save", "w": w, "rec": True, "fmt": rng.choice(["json", "ron"])})
                nblobs += 1
            elif x < 0.93 and nblobs:
                k = rng.randrange(nblobs)
                perm = [rng.randrange(6) for _ in range(rng.randint(0, 4))]
                ops.append({"o": "load", "w": w, "blob": k, "perm": perm if rng.random() < 0.5 else None})
            elif marker == "simple":
                recs = []
                for _ in range(rng.randint(1, 4)):
                    recs.append({"m": rng.randrange(14), "a": rng.choice([None, rng.randrange(100)]), "b": rng.choice([None, -rng.randrange(50)]),
                                 "r": rng.choice([None, [rng.randrange(14) for _ in range(rng.randint(0, 2))]])})
                # one record per marker id at most
                seen, rr = set(), []
                for r in recs:
                    if r["m"] not in seen:
                        seen.add(r["m"])
                        rr.append(r)
                ops.append({"o": "loadsynth", "w": w, "recs": rr, "fmt": rng.choice(["json", "ron"])})
        scripts.append({"tid": tid0 + i, "marker": marker, "worlds": 2, "ops": ops})
    return scripts


def mmc_cfg(maxidx, maxops, maxid, emit=True, retrmax=None):
    return """SPECIFICATION MCSpec
CONSTANTS
  MaxIdx = %d
  MaxOps = %d
  MaxId = %d
  RetrMax = %d
  Emit = %s
CONSTRAINT Bound
VIEW View
INVARIANT NoViol
INVARIANT StructInv
CHECK_DEADLOCK FALSE
""" % (maxidx, maxops, maxid, maxid if retrmax is None else retrmax, "TRUE" if emit else "FALSE")


def opt(v):
    return v[0] if v else None


def conv_marker_script(hist, tid):
    ops = []
    nsaves = 0
    for o in hist:
        k = o["o"]
        if k == "create":
            ops.append({"o": "create", "w": 0, "a": opt(o["a"]), "b": None})
        elif k == "mark":
            ops.append({"o": "mark", "w": 0, "h": o["k"] - 1})
        elif k == "delete":
            ops.append({"o": "delete", "w": 0, "h": o["k"] - 1})
        elif k == "setr":
            ops.append({"o": "set", "w": 0, "h": o["k"] - 1, "c": "r", "v": [x - 1 for x in o["vk"]] if o["v"] else None})
        elif k == "amaintain":
            ops.append({"o": "amaintain", "w": 0})
        elif k == "retrieve":
            ops.append({"o": "retrieve", "w": 0, "m": o["m"]})
        elif k == "save":
            ops.append({"o": "save", "w": 0, "rec": False, "fmt": ["json", "ron"][tid % 2]})
            nsaves += 1
        elif k == "load":
            if o["own"]:
                ops.append({"o": "load", "w": 0, "blob": nsaves - 1})
            else:
                ops.append({"o": "loadsynth", "w": 0, "fmt": ["json", "ron"][(tid // 2) % 2],
                            "recs": [{"m": r["m"], "a": opt(r["a"]), "b": opt(r["b"]), "r": (r["r"][0] if r["r"] else None)} for r in o["recs"]]})
    return {"tid": tid, "marker": "simple", "worlds": 1, "ops": ops}


def inductive(tier):
    """Marker_Ind.tla: uniqueness of marker ids by an inductive invariant (design level)"""
    ne, nm = (4, 4) if tier == "quick" else (7, 7)
    return C.inductive_suite("marker_inductive", "Marker_Ind", tier, {"NE": ne, "NM": nm}, "NE = %d /\\ NM = %d" % (ne, nm),
                             "CONSTANTS\n NE = 3\n NM = 3", tlc_note="3 entity identities, 3 marker ids", safe="Unique")


def check(prop, tier, seed):
    out = traces(prop, tier, seed)
    if prop == "C15":
        out.append(inductive(tier))
    return out


def traces(prop, tier, seed):
    params = {"tier": tier}
    key = C.suite_key("saveload", params, seed, tier)
    hit = C.cache_get(key)
    if hit is not None:
        hit["cache_hit"] = True
        return [hit]
    rng = random.Random(seed * 271 + 11)
    from . import worldgen as G
    st, tl = C.model_check("Marker_MC.tla", mmc_cfg(2, 5, 2) if tier == "quick" else mmc_cfg(3, 6, 2, retrmax=0), "marker_" + tier, workers=8)
    mscripts = [conv_marker_script(h, 73000000 + i) for i, h in enumerate(G.dedupe_prefixes(tl))]
    scripts = (content_scripts(tier, rng, 71000000) + random_scripts(tier, rng, 72000000, 250 if tier == "quick" else 4000)
               + mscripts)
    workdir = os.path.join(C.OUT, "work", "%s_%d" % (key, os.getpid()))
    C.sh(["rm", "-rf", workdir])
    r = C.exec_and_validate("sl", scripts, workdir, "SaveLoad_Trace.tla", "SaveLoad_Trace.cfg", events_per_chunk=1500,
                            est_events_per_script=20)
    res = {"suite": "saveload", "kind": "mc+enum+rand", "params": params, "cache_hit": False, "mc": st, "tlc_scripts": len(tl),
           "n_scripts": r["n_scripts"], "n_events": r["n_events"], "wall_s": r["wall_s"]}
    res["rule"] = "one script per transition TLC explored on Marker_L1 (allocator counter, stale mapping, mark / delete / allocator-maintain / save / load of own and synthetic data) + all world contents on <= 3 entities (sampled in the quick tier) + random reference graphs on 4-6 entities for the recursive serialiser + re-mark/counter scripts + random two-world histories; every operation logs the complete world content; TLC validates against SaveLoad_L0"
    bytid = {s["tid"]: s for s in scripts}
    viol, seen = [], set()
    for v in sorted(r["viol"], key=lambda x: (x["p"], x["tid"], x["line"])):
        if (v["p"], v["tid"]) in seen:
            continue
        seen.add((v["p"], v["tid"]))
        ent = {"p": v["p"], "tid": v["tid"], "m": v["m"], "d": v["d"][:3000], "line": v["line"]}
        if len([x for x in viol if x["p"] == v["p"]]) < 5:
            ent["script"] = bytid.get(v["tid"])
        viol.append(ent)
    res["viol"] = viol
    res["samples"] = [scripts[0], scripts[-1]]
    try:
        res["drift"] = marker_drift(G.dedupe_prefixes(tl), workdir)
    except C.ToolError as e:
        res["drift"] = {"error": str(e)[-300:]}
    C.sh(["rm", "-rf", workdir])
    C.cache_put(key, res)
    return [res]


def marker_drift(hists, workdir, limit=2500):
    """impl -> L1: TLC re-executes the emitted histories on Marker_L1 and compares the complete world content,
    marking results and serialised records with what the real code recorded (informational, never an alarm)"""
    if len(hists) > limit:
        step = len(hists) / float(limit)
        hists = [hists[int(i * step)] for i in range(limit)]
    os.makedirs(workdir, exist_ok=True)
    sp = os.path.join(workdir, "mdrift_scripts.ndjson")
    hp = os.path.join(workdir, "mdrift_harness.ndjson")
    tp = os.path.join(workdir, "mdrift_trace.ndjson")
    with open(sp, "w") as f, open(hp, "w") as g:
        for i, h in enumerate(hists):
            tid = 79000000 + i
            f.write(json.dumps({"tid": tid, "ops": h}) + "\n")
            # (json for every save: the recorded `data` is format independent anyway)
            g.write(json.dumps(conv_marker_script(h, tid)) + "\n")
    r = C.sh([C.BIN, "sl", hp, tp], timeout=600)
    if r.returncode != 0:
        return {"error": "harness exit %d" % r.returncode}
    cfg = os.path.join(workdir, "mdrift.cfg")
    C.write_cfg(cfg, "SPECIFICATION DSpec\nCONSTANTS\n  MaxIdx = 3\nINVARIANT Verdict\nCHECK_DEADLOCK FALSE\n")
    t = C.run_tlc("Marker_Drift.tla", cfg, workers=1, timeout=600, env={"SCRIPTS": sp, "TRACE": tp}, deque=True, xmx="3g")
    d = C.parse_printed(t.stdout, "DRIFT")
    if not d:
        return {"error": t.stdout[-300:]}
    return d[-1]
