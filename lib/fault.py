"""Fault domain (C19): for every storage kind and every operation that destroys
components, the k-th destructor call panics (injected through the instrumented
component type), the unwind is caught, the world keeps being used and is finally
dropped (sometimes with another panicking destructor).  TLC validates the
traces against World_L0, whose Fault rule re-bases on what is observable and
checks exactly what C19 promises: nothing destroyed twice, no destroyed value
exposed, the world still follows its rules."""
import os

from . import common as C
from . import worldgen as G
from . import world as W


def check(prop, tier, seed):
    params = {"n": 900 if tier == "quick" else 12000, "churn_per_kind": 10 if tier == "quick" else 120}
    key = C.suite_key("fault", params, seed, tier)
    hit = C.cache_get(key)
    if hit is not None:
        hit["cache_hit"] = True
        from . import store
        from . import cs
        return [hit, store.run_suite("smc_fault", tier, seed)] + cs.check("C19", tier, seed)
    scripts = G.fault_scripts(seed, params["n"], 61000000) + G.fault_churn_scripts(seed, params["churn_per_kind"], 62000000)
    workdir = os.path.join(C.OUT, "work", "%s_%d" % (key, os.getpid()))
    C.sh(["rm", "-rf", workdir])
    r = C.exec_and_validate("world", scripts, workdir, "World_Trace.tla", "World_Trace.cfg")
    res = {"suite": "fault", "kind": "fault_enumeration", "params": params, "cache_hit": False,
           "n_scripts": r["n_scripts"], "n_events": r["n_events"], "wall_s": r["wall_s"]}
    res["rule"] = "each script injects a panic into the k-th library-side destructor call of one destroying operation on a world with 1-3 storages of rotating kinds, continues with further operations and drops the world (35% with a panicking destructor at teardown too); distinct_nontrivial = distinct (storage kind, operation, k) triples injected"
    res["viol"] = W.pack_viol(r["viol"], scripts)
    res["samples"] = W.samples_of(scripts)
    # which (kind, operation, k) combinations were injected, and in how many did the destructor really panic
    combos = set()
    for s in scripts:
        for o in s["ops"]:
            if o.get("o") == "fault":
                inner = o["op"]
                name = inner.get("k") if inner["o"] == "wop" else (inner.get("path") if inner["o"] == "sop" else inner["o"])
                for kd in s["cfg"]["kinds"]:
                    combos.add((kd, name, o["k"]))
    res["distinct"] = len(combos)
    res["extra"] = {"distinct_kind_operation_k": len(combos)}
    C.sh(["rm", "-rf", workdir])
    C.cache_put(key, res)
    # Store_L1 with destructor-panic operations, model-checked and replayed
    from . import store
    from . import cs
    return [res, store.run_suite("smc_fault", tier, seed)] + cs.check("C19", tier, seed)
