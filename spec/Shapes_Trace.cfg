SPECIFICATION TSpec
INVARIANT Verdict
POSTCONDITION Accepted
CHECK_DEADLOCK FALSE
