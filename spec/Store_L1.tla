----------------------------- MODULE Store_L1 -----------------------------
(***************************************************************************)
(* Implementation-shaped model of one component storage of amethyst/specs  *)
(* behind its MaskedStorage mask (src/storage/mod.rs), for each built-in   *)
(* kind (src/storage/storages.rs) and both change-tracking wrappers        *)
(* (flagged.rs, deref_flagged.rs):                                         *)
(*                                                                         *)
(*   "vec"     VecStorage: slots id -> <<state, value>>, state one of      *)
(*             "uninit" | "live" | "moved" (MaybeUninit: remove() reads    *)
(*             the value out and leaves the bytes; only the mask says it   *)
(*             is gone); clean() drops the slots the mask names            *)
(*   "dense"   DenseVecStorage: data / entity_id / data_id with            *)
(*             swap-remove and the redirect of the moved element           *)
(*   "defvec"  DefaultVecStorage: a vector padded with Default values;     *)
(*             remove() = mem::take                                        *)
(*   "map"     HashMapStorage / BTreeStorage                               *)
(*   "null"    NullStorage: nothing stored, values are <<0, 0>>            *)
(*                                                                         *)
(* wrapper Trk: "none" | "flagged" | "deref" adds the event channel.       *)
(* All handles are live entities <<i, 1>>, i \in Ids (aliveness is the     *)
(* subject of World_L1).  Every operation returns the new state and the    *)
(* events (trace vocabulary of World_L0) it produces, including what the   *)
(* observation sweep of the harness would see; Store_MC feeds them to      *)
(* World_L0!Step.  `drops` counts destructor runs per cid so that the      *)
(* invariants can say "no value is destroyed twice" and "nothing exposed   *)
(* was destroyed or never written" (C08) at the level of the algorithm.    *)
(***************************************************************************)
EXTENDS Naturals, Integers, Sequences, FiniteSets, TLC

CONSTANTS Ids,         \* indices used (a small set of naturals)
          Kind,        \* "vec" | "dense" | "defvec" | "map" | "null"
          Trk          \* "none" | "flagged" | "deref"

Absent == <<>>
Dflt == <<0, 0>>
MaxId == CHOOSE m \in Ids : \A i \in Ids : i <= m
H(i) == <<i, 1>>

Init0 ==
  [ mask |-> {},
    slots |-> [i \in 0..MaxId |-> <<"uninit", Dflt>>], vlen |-> 0,          \* vec
    data |-> <<>>, eid |-> <<>>, did |-> [i \in 0..MaxId |-> 0 - 1],          \* dense (did -1 = uninit)
    dv |-> <<>>,                                                              \* defvec
    map |-> <<>>,                                                             \* map
    chan |-> <<>>, emit |-> TRUE,                                             \* wrapper
    dead |-> {},                                                              \* entities deleted so far
    faulted |-> FALSE,                                                        \* a destructor has panicked: leaks may exist
    dropped |-> {}, bad |-> {}, returned |-> {},                              \* ghost: destroyed / handed-back cids; anomalies
    zc |-> 0, zlib |-> 0, zharn |-> 0,                                        \* zero-sized values: created / dropped by library / by caller
    ncid |-> 0, nval |-> 100 ]

FnSet(f, k, v) == [x \in DOMAIN f \cup {k} |-> IF x = k THEN v ELSE f[x]]
FnDel(f, ks)   == [x \in DOMAIN f \ ks |-> f[x]]
SeqOfSet(T) ==
  LET RECURSIVE B(_, _)
      B(rest, acc) == IF rest = {} THEN acc
                      ELSE LET m == CHOOSE x \in rest : \A y \in rest : x <= y IN B(rest \ {m}, Append(acc, m))
  IN B(T, <<>>)
SwapRemove(q, k) == IF k = Len(q) THEN SubSeq(q, 1, Len(q) - 1)
                    ELSE [j \in 1..(Len(q) - 1) |-> IF j = k THEN q[Len(q)] ELSE q[j]]

\* ghost: a destructor runs on value v
Drop(st, v) == IF Kind = "null" THEN [st EXCEPT !.zlib = @ + 1]
               ELSE IF v[1] = 0 THEN st
               ELSE IF v[1] \in st.dropped THEN [st EXCEPT !.bad = @ \cup {<<"double drop", v[1]>>}]
               ELSE [st EXCEPT !.dropped = @ \cup {v[1]}]

\* ghost: a value handed back to the caller (who then drops it)
Ret(st, v) == IF v = Absent THEN st ELSE IF Kind = "null" THEN [st EXCEPT !.zharn = @ + 1] ELSE IF v[1] = 0 THEN st ELSE [st EXCEPT !.returned = @ \cup {v[1]}]

Chan(st, k, id) == IF Trk = "none" \/ ~st.emit THEN st ELSE [st EXCEPT !.chan = Append(@, <<k, id>>)]

\* -------------------------------------------- UnprotectedStorage per kind
UGet(st, id) ==
  CASE Kind = "vec" -> st.slots[id][2]
    [] Kind = "dense" -> st.data[st.did[id] + 1]
    [] Kind = "defvec" -> st.dv[id + 1]
    [] Kind = "map" -> st.map[id]
    [] Kind = "null" -> Dflt

\* reading a slot that holds no live value is the bug the mask must prevent
UGetChecked(st, id) ==
  LET ok == CASE Kind = "vec" -> id < st.vlen /\ st.slots[id][1] = "live"
              [] Kind = "dense" -> st.did[id] >= 0 /\ st.did[id] < Len(st.data) /\ st.eid[st.did[id] + 1] = id
              [] Kind = "defvec" -> id < Len(st.dv)
              [] Kind = "map" -> id \in DOMAIN st.map
              [] Kind = "null" -> TRUE
  IN ok

USet(st, id, v) ==
  CASE Kind = "vec" -> [st EXCEPT !.slots[id] = <<"live", v>>]
    [] Kind = "dense" -> [st EXCEPT !.data[st.did[id] + 1] = v]
    [] Kind = "defvec" -> [st EXCEPT !.dv[id + 1] = v]
    [] Kind = "map" -> [st EXCEPT !.map[id] = v]
    [] Kind = "null" -> st

UInsert(st0, id, v) ==
  LET st == IF Trk # "none" THEN Chan(st0, "I", id) ELSE st0 IN
  CASE Kind = "vec" -> [st EXCEPT !.slots[id] = <<"live", v>>, !.vlen = IF @ <= id THEN id + 1 ELSE @]
    [] Kind = "dense" -> [st EXCEPT !.did[id] = Len(st.data), !.eid = Append(@, id), !.data = Append(@, v)]
    [] Kind = "defvec" ->
         IF Len(st.dv) <= id
         THEN [st EXCEPT !.dv = @ \o [j \in 1..(id - Len(st.dv)) |-> Dflt] \o <<v>>]
         ELSE Drop([st EXCEPT !.dv[id + 1] = v], st.dv[id + 1])          \* assignment drops the filler
    [] Kind = "map" -> [st EXCEPT !.map = FnSet(@, id, v)]
    [] Kind = "null" -> st                                               \* mem::forget

\* returns [st, v]
URemove(st0, id) ==
  LET st == IF Trk # "none" THEN Chan(st0, "R", id) ELSE st0 IN
  CASE Kind = "vec" -> [st |-> [st EXCEPT !.slots[id] = <<"moved", @[2]>>], v |-> st.slots[id][2]]
    [] Kind = "dense" ->
         LET d == st.did[id] last == st.eid[Len(st.eid)] IN
         [st |-> [st EXCEPT !.did[last] = d, !.eid = SwapRemove(@, d + 1), !.data = SwapRemove(@, d + 1)],
          v |-> st.data[d + 1]]
    [] Kind = "defvec" -> [st |-> [st EXCEPT !.dv[id + 1] = Dflt], v |-> st.dv[id + 1]]
    [] Kind = "map" -> [st |-> [st EXCEPT !.map = FnDel(@, {id})], v |-> st.map[id]]
    [] Kind = "null" -> [st |-> st, v |-> Dflt]

\* clean(has): destroy everything the mask names
UClean(st, has) ==
  CASE Kind = "vec" ->
         LET RECURSIVE C(_, _)
             C(s, i) == IF i >= s.vlen THEN s
                        ELSE IF i \in has
                             THEN C(IF s.slots[i][1] = "live" THEN Drop([s EXCEPT !.slots[i] = <<"moved", @[2]>>], s.slots[i][2])
                                    ELSE [s EXCEPT !.bad = @ \cup {<<"clean drops non-live slot", i>>}], i + 1)
                             ELSE C(s, i + 1)
         IN C(st, 0)
    [] Kind = "dense" ->
         LET RECURSIVE D(_, _)
             D(s, k) == IF k > Len(st.data) THEN s ELSE D(Drop(s, st.data[k]), k + 1)
         IN D([st EXCEPT !.did = [i \in 0..MaxId |-> 0 - 1], !.eid = <<>>, !.data = <<>>], 1)
    [] Kind = "defvec" ->
         LET RECURSIVE D(_, _)
             D(s, k) == IF k > Len(st.dv) THEN s ELSE D(Drop(s, st.dv[k]), k + 1)
         IN D([st EXCEPT !.dv = <<>>], 1)
    [] Kind = "map" ->
         LET ids == SeqOfSet(DOMAIN st.map)
             RECURSIVE D(_, _)
             D(s, k) == IF k > Len(ids) THEN s ELSE D(Drop(s, st.map[ids[k]]), k + 1)
         IN D([st EXCEPT !.map = <<>>], 1)
    [] Kind = "null" -> [st EXCEPT !.zlib = @ + Cardinality(has)]      \* remove(id) for every id, dropped at once

\* -------------------------------------------------- what a sweep would see
Get(st, id) == IF id \in st.mask /\ id \notin st.dead
               THEN IF UGetChecked(st, id) THEN UGet(st, id) ELSE <<0 - 9, 0 - 9>>   \* would be undefined behaviour
               ELSE Absent

Obs(st) ==
  LET ids == SeqOfSet(Ids) IN
  [ hs |-> [k \in 1..Len(ids) |-> H(ids[k])],
    alive |-> [k \in 1..Len(ids) |-> ids[k] \notin st.dead],
    walive |-> [k \in 1..Len(ids) |-> IF ids[k] \in st.dead THEN 0 ELSE 1],
    join |-> LET l == SeqOfSet(Ids \ st.dead) IN [k \in 1..Len(l) |-> H(l[k])],
    st |-> << IF Trk = "none"
              THEN [mask |-> SeqOfSet(st.mask), get |-> [k \in 1..Len(ids) |-> Get(st, ids[k])]]
              ELSE [mask |-> SeqOfSet(st.mask), get |-> [k \in 1..Len(ids) |-> Get(st, ids[k])], evs |-> st.chan] >> ]

\* the reader is read by every sweep
Ev(st, r) == [x \in DOMAIN r \cup {"obs"} |-> IF x = "obs" THEN Obs(st) ELSE r[x]]
Read(st) == [st EXCEPT !.chan = <<>>]
Out(st, r) == [st |-> Read(st), evs |-> <<Ev(st, r)>>]

\* ------------------------------------------------------------ operations
NewC(st) == IF Kind = "null" THEN Dflt ELSE <<st.ncid + 1, st.nval + 1>>
BumpC(st) == [st EXCEPT !.ncid = @ + 1, !.nval = @ + 1, !.zc = IF Kind = "null" THEN @ + 1 ELSE @]
NewV(st) == IF Kind = "null" THEN 0 ELSE st.nval + 1
BumpV(st) == [st EXCEPT !.nval = @ + 1]

\* AccessMut handed out for id; `written`: the caller derefs it mutably
Access(st, id, written) ==
  IF Trk = "flagged" \/ (Trk = "deref" /\ written) THEN Chan(st, "M", id) ELSE st

SBase(cls, id, res, c, val) == [op |-> "SOp", cls |-> cls, path |-> cls, s |-> 1, h |-> H(id), res |-> res, c |-> c, val |-> val]

Exec(st, op) ==
  CASE op.o = "get" -> Out(st, SBase("read", op.i, Get(st, op.i), Dflt, 0 - 1))
    [] op.o = "get_mut" ->     \* Storage::get_mut, caller writes iff op.w
         IF op.i \in st.mask
         THEN LET old == UGet(st, op.i) v == NewV(st)
                  st1 == Access(st, op.i, op.w)
                  st2 == IF op.w THEN USet(BumpV(st1), op.i, <<old[1], v>>) ELSE st1
              IN Out(st2, SBase("write", op.i, old, Dflt, IF op.w THEN v ELSE 0 - 1))
         ELSE Out(st, SBase("write", op.i, Absent, Dflt, 0 - 1))
    [] op.o = "insert" ->      \* Storage::insert: swap through get_mut when present
         LET c == NewC(st) st0 == BumpC(st) IN
         IF op.i \in st.mask
         THEN LET old == UGet(st0, op.i)
                  st1 == USet(Access(st0, op.i, TRUE), op.i, c)
              IN Out(Ret(st1, old), SBase("insert", op.i, old, c, 0 - 1))
         ELSE LET st1 == [UInsert(st0, op.i, c) EXCEPT !.mask = @ \cup {op.i}]
              IN Out(st1, SBase("insert", op.i, Absent, c, 0 - 1))
    [] op.o = "remove" ->      \* MaskedStorage::remove: mask first, then the value
         IF op.i \in st.mask
         THEN LET r == URemove([st EXCEPT !.mask = @ \ {op.i}], op.i)
              IN Out(Ret(r.st, r.v), SBase("remove", op.i, r.v, Dflt, 0 - 1))
         ELSE Out(st, SBase("remove", op.i, Absent, Dflt, 0 - 1))
    [] op.o = "clear" ->       \* take the mask, clean, restore an empty mask
         LET st1 == UClean([st EXCEPT !.mask = {}], st.mask)
         IN Out(st1, [op |-> "WOp", k |-> "clear", s |-> 1])
    [] op.o = "drain" ->       \* Drain: mask cloned, remove(id) for the first n ids
         LET ids == SeqOfSet(st.mask)
             n == IF op.n < 0 \/ op.n > Len(ids) THEN Len(ids) ELSE op.n
             RECURSIVE D(_, _, _)
             D(s, k, acc) == IF k > n THEN [st |-> s, items |-> acc]
                             ELSE LET r == URemove([s EXCEPT !.mask = @ \ {ids[k]}], ids[k])
                                  IN D(Ret(r.st, r.v), k + 1, Append(acc, <<ids[k], r.v>>))
             d == D(st, 1, <<>>)
         IN Out(d.st, [op |-> "WOp", k |-> "drain", s |-> 1, n |-> op.n, items |-> d.items])
    [] op.o = "joinmut" ->     \* (&mut storage).join(): AccessMut per member; written iff bit set
         LET ids == SeqOfSet(st.mask)
             RECURSIVE J(_, _, _)
             J(s, k, acc) ==
               IF k > Len(ids) THEN [st |-> s, items |-> acc]
               ELSE LET id == ids[k] old == UGet(s, id) w == k \in op.sel v == NewV(s)
                        s1 == Access(s, id, w)
                        s2 == IF w THEN USet(BumpV(s1), id, <<old[1], v>>) ELSE s1
                    IN J(s2, k + 1, Append(acc, <<id, old, IF w THEN v ELSE 0 - 1>>))
             j == J(st, 1, <<>>)
         IN Out(j.st, [op |-> "WOp", k |-> "joinmut", s |-> 1, items |-> j.items])
    [] op.o = "restrict" ->    \* join over restrict_mut(): per member read, optionally fetch mutably (op.fm), optionally write (op.wr)
         LET ids == SeqOfSet(st.mask)
             RECURSIVE J(_, _, _)
             J(s, k, acc) ==
               IF k > Len(ids) THEN [st |-> s, items |-> acc]
               ELSE LET id == ids[k] old == UGet(s, id) f == k \in op.fm w == f /\ k \in op.wr v == NewV(s)
                        s1 == IF f THEN Access(s, id, w) ELSE s
                        s2 == IF w THEN USet(BumpV(s1), id, <<old[1], v>>) ELSE s1
                    IN J(s2, k + 1, Append(acc, <<id, old, f, IF w THEN v ELSE IF f THEN 0 - 1 ELSE 0 - 2>>))
             j == J(st, 1, <<>>)
         IN Out(j.st, [op |-> "WOp", k |-> "restrict", s |-> 1, mode |-> "mut_join", items |-> j.items])
    [] op.o = "count" ->
         Out(st, [op |-> "WOp", k |-> "count", s |-> 1, n |-> Cardinality(st.mask), b |-> st.mask = {}])
    [] op.o = "setemit" ->
         Out([st EXCEPT !.emit = op.b], [op |-> "WOp", k |-> "setemit", s |-> 1, b |-> op.b])
    [] op.o = "slice" ->       \* SliceAccess::as_slice (vec / dense / defvec): the raw slot view
         CASE Kind = "vec" ->
                LET ids == SeqOfSet({i \in st.mask : i \notin st.dead}) IN
                Out(st, [op |-> "WOp", k |-> "slice", s |-> 1, kind |-> "vec",
                         items |-> [j \in 1..Len(ids) |-> <<ids[j], IF ids[j] < st.vlen THEN st.slots[ids[j]][2] ELSE <<0 - 2>> >>]])
           [] Kind = "dense" -> Out(st, [op |-> "WOp", k |-> "slice", s |-> 1, kind |-> "dense", vals |-> st.data])
           [] Kind = "defvec" -> Out(st, [op |-> "WOp", k |-> "slice", s |-> 1, kind |-> "defvec", vals |-> st.dv])

\* ------------------------------------------------------------- faults (C19)
\* The k-th destructor call of a destroying operation panics; the rest of the
\* operation is skipped except for what unwinding still does.  What the
\* containers of std / hashbrown do with the remaining elements only affects
\* leaks, which C19 allows: Vec::clear keeps dropping the rest; the loops written
\* in specs (VecStorage::clean, NullStorage::clean) stop; maps leak the rest.
UCleanFault(st, has, k) ==
  CASE Kind = "vec" ->
         LET RECURSIVE C(_, _, _)
             C(s, i, n) == IF i >= s.vlen THEN s
                           ELSE IF i \in has /\ s.slots[i][1] = "live"
                                THEN LET s1 == Drop([s EXCEPT !.slots[i] = <<"moved", @[2]>>], s.slots[i][2])
                                     IN IF n + 1 = k THEN s1 ELSE C(s1, i + 1, n + 1)
                                ELSE C(s, i + 1, n)
         IN C(st, 0, 0)
    [] Kind = "map" ->
         LET ids == SeqOfSet(DOMAIN st.map)
             RECURSIVE D(_, _)
             D(s, j) == IF j > Len(ids) \/ j > k THEN s ELSE D(Drop(s, st.map[ids[j]]), j + 1)
         IN D([st EXCEPT !.map = <<>>], 1)
    [] Kind = "null" -> [st EXCEPT !.zlib = @ + (IF k < Cardinality(has) THEN k ELSE Cardinality(has))]   \* the loop stops
    [] OTHER -> UClean(st, has)       \* dense / defvec: Vec::clear drops everything

Ledger(st) == [destroyed |-> SeqOfSet(st.dropped), returned |-> SeqOfSet(st.returned),
               held |-> IF Kind = "null" THEN <<>> ELSE SeqOfSet((1..st.ncid) \ (st.dropped \cup st.returned)),
               anomalies |-> IF st.bad = {} THEN <<>> ELSE <<"double drop">>, zc |-> st.zc, zlib |-> st.zlib, zharn |-> st.zharn]

ExecFault(st, op) ==
  CASE op.o = "clear_f" ->     \* MaskedStorage::clear with a panicking destructor
         LET st1 == UCleanFault([st EXCEPT !.mask = {}, !.faulted = TRUE], st.mask, op.k)
         IN Out(st1, [op |-> "Fault", in |-> "WOp", k |-> op.k, msg |-> "injected", ledger |-> Ledger(st1)])
    [] op.o = "delete_f" ->    \* World::delete_entity: kill, then MaskedStorage::drop(id): bit first, then the value
         LET st0 == [st EXCEPT !.dead = @ \cup {op.i}, !.faulted = (op.i \in st.mask) \/ @]
             st1 == IF op.i \in st.mask
                    THEN LET r == URemove([st0 EXCEPT !.mask = @ \ {op.i}], op.i) IN Drop(r.st, r.v)
                    ELSE st0
         IN IF op.i \in st.mask
            THEN Out(st1, [op |-> "Fault", in |-> "Delete", k |-> 1, msg |-> "injected", ledger |-> Ledger(st1)])
            ELSE Out(st1, [op |-> "Delete", h |-> H(op.i), ok |-> TRUE])

\* dropping the world: Drop for MaskedStorage = clear()
Teardown(st) ==
  LET st1 == UClean([st EXCEPT !.mask = {}], st.mask)
  IN [st |-> st1, evs |-> <<[op |-> "DropWorld", ledger |-> Ledger(st1), tfault |-> FALSE]>>]

\* ------------------------------------------------- structural invariants
Struct(st) ==
  /\ st.bad = {}
  /\ \A i \in st.mask : UGetChecked(st, i)
  /\ Kind = "dense" =>
       /\ Len(st.data) = Len(st.eid) /\ Len(st.data) = Cardinality(st.mask)
       /\ \A k \in 1..Len(st.eid) : st.eid[k] \in st.mask /\ st.did[st.eid[k]] = k - 1
  /\ (Kind = "vec" /\ ~st.faulted) => \A i \in 0..MaxId : (st.slots[i][1] = "live") => i \in st.mask
  /\ Kind = "defvec" => \A k \in 1..Len(st.dv) : (k - 1) \notin st.mask => st.dv[k] = Dflt
  /\ Kind = "map" => DOMAIN st.map = st.mask
  \* nothing a lookup can return has been destroyed
  /\ \A i \in st.mask : UGet(st, i)[1] \notin st.dropped
=============================================================================
