------------------------------ MODULE Bits_L1 ------------------------------
(***************************************************************************)
(* Model of the hierarchical bit sets behind every join mask (hibitset:    *)
(* 4 layers of 64-bit words, index = four base-64 digits), restricted to   *)
(* indices whose digits all lie in a small set P of bit positions.  With   *)
(* P = {0, 63} and three digits the universe is the 8 real indices         *)
(* 0, 63, 4032, 4095, 258048, 258111, 262080, 262143 - every one of them   *)
(* on a layer boundary - so the model needs no translation to the code.    *)
(*                                                                         *)
(* A layered set is the family of its layer sets: Layer(X, k) = the        *)
(* prefixes i \div 64^k of its members.  Composites combine layer by       *)
(* layer, exactly as BitSetAnd / Or / Not / Xor do, so an upper layer can  *)
(* promise members that the bottom layer does not have.  Iter is           *)
(* BitIter's descent: ascending over the set bits of a word, descending    *)
(* where the summary bit is set.  TLC checks for ALL pairs of subsets      *)
(* that iteration yields exactly the set-theoretic result, ascending,      *)
(* once each (design level of C06), and that every tree of producer        *)
(* splits partitions the set (design level of C07).                        *)
(*                                                                         *)
(* Deliberate abstraction: BitProducer::split cuts a word at               *)
(* average_ones(mask); the model allows any cut that leaves a set bit on   *)
(* each side - a superset of what the code can do.                         *)
(***************************************************************************)
EXTENDS Naturals, Sequences, FiniteSets, TLC

CONSTANTS P, Depth       \* digit positions, number of digits (<= 4)

RECURSIVE Pow(_, _)
Pow(b, k) == IF k = 0 THEN 1 ELSE b * Pow(b, k - 1)

RECURSIVE Build(_)
Build(d) == IF d = 0 THEN {0} ELSE {p * Pow(64, d - 1) + r : p \in P, r \in Build(d - 1)}
U == Build(Depth)

Pre(i, k) == i \div Pow(64, k)
Layer(X, k) == {Pre(i, k) : i \in X}

\* a layered set: function level -> set of prefixes present at that level
L(X) == [k \in 0..Depth |-> Layer(X, k)]
AllL == [k \in 0..Depth |-> Layer(U, k)]
And(a, b) == [k \in 0..Depth |-> a[k] \cap b[k]]
Or(a, b)  == [k \in 0..Depth |-> a[k] \cup b[k]]
Not(a)    == [k \in 0..Depth |-> IF k = 0 THEN U \ a[0] ELSE AllL[k]]
Xor(a, b) == [k \in 0..Depth |-> IF k = 0 THEN (a[0] \ b[0]) \cup (b[0] \ a[0]) ELSE a[k] \cup b[k]]

SortedSeq(T) ==
  LET RECURSIVE B(_, _)
      B(rest, acc) == IF rest = {} THEN acc
                      ELSE LET m == CHOOSE x \in rest : \A y \in rest : x <= y IN B(rest \ {m}, Append(acc, m))
  IN B(T, <<>>)

\* BitIter: depth-first, ascending, entering a child word only if its summary bit is set
RECURSIVE Walk(_, _, _)
Walk(a, k, prefix) ==
  LET kids == SortedSeq({c \in a[k] : k = Depth \/ Pre(c, 1) = prefix})
      RECURSIVE Each(_)
      Each(j) == IF j > Len(kids) THEN <<>>
                 ELSE (IF k = 0 THEN <<kids[j]>> ELSE Walk(a, k - 1, kids[j])) \o Each(j + 1)
  IN Each(1)
Iter(a) == Walk(a, Depth, 0)

VARIABLES x, y, prods, orig
vars == <<x, y, prods, orig>>

\* ---- splitting: a producer is the set of indices it will still deliver
Digit(i, k) == Pre(i, k) % 64
TopLevel(I) == CHOOSE k \in 1..Depth : /\ Cardinality({Pre(i, k) : i \in I}) > 1 \/ k = 1
                                       /\ \A j \in (k + 1)..Depth : Cardinality({Pre(i, j) : i \in I}) = 1
CanSplit(I) == Cardinality({Pre(i, 1) : i \in I}) > 1
Cuts(I) == LET k == TopLevel(I) ds == {Pre(i, k) : i \in I} IN {c \in ds : \E d \in ds : d < c}
SplitAt(I, c) == LET k == TopLevel(I) IN <<{i \in I : Pre(i, k) < c}, {i \in I : Pre(i, k) >= c}>>

Init == /\ x \in SUBSET U /\ y \in SUBSET U
        /\ orig = x \cap y
        /\ prods = {x \cap y}
Next == \E I \in prods : CanSplit(I) /\ \E c \in Cuts(I) :
          LET s == SplitAt(I, c) IN prods' = (prods \ {I}) \cup {s[1], s[2]} /\ UNCHANGED <<x, y, orig>>
Spec == Init /\ [][Next]_vars

IterCorrect ==
  /\ Iter(L(x)) = SortedSeq(x)
  /\ Iter(And(L(x), L(y))) = SortedSeq(x \cap y)
  /\ Iter(Or(L(x), L(y))) = SortedSeq(x \cup y)
  /\ Iter(And(L(x), Not(L(y)))) = SortedSeq(x \ y)
  /\ Iter(Xor(L(x), L(y))) = SortedSeq((x \ y) \cup (y \ x))
  /\ Iter(And(AllL, L(x))) = SortedSeq(x)
  /\ Iter(And(Or(L(x), L(y)), Not(And(L(x), L(y))))) = SortedSeq((x \cup y) \ (x \cap y))

Partition ==
  /\ UNION prods = orig
  /\ \A a, b \in prods : a # b => a \cap b = {}
  /\ \A a \in prods : a # {} \/ orig = {}
=============================================================================
