SPECIFICATION MCSpec
CONSTANTS
  MaxIdx = 3
  S = 0
  FixKill = TRUE
  MaxH = 6
  MaxOps = 8
  MaxC = 0
  MaxGen = 3
  Fams = {"alloc", "defer", "batch"}
  Emit = FALSE
CONSTRAINT Bound
VIEW View
INVARIANT NoViol
INVARIANT StructInv
INVARIANT RecycleInv
CHECK_DEADLOCK FALSE
