--------------------------- MODULE World_Trace ---------------------------
(***************************************************************************)
(* Trace validation: events recorded from the real specs code (ndjson,     *)
(* path in env var TRACE) are fed one per step through World_L0!Step.      *)
(* The step never refuses an event; it attributes violations instead, so   *)
(* the verdict names the property and the line.  Acceptance = every line   *)
(* consumed (postcondition on the diameter).                               *)
(***************************************************************************)
EXTENDS World_L0, Json, IOUtils

Rec == ndJsonDeserialize(IOEnv.TRACE)

VARIABLES l, w, viol

vars == <<l, w, viol>>

Empty == [issued |-> {}, status |-> <<>>, merged |-> <<>>, comp |-> <<>>, zst |-> <<>>,
          lazyq |-> <<>>, peak |-> 0, led |-> <<>>, zdes |-> 0, zret |-> 0, inm |-> 0, tid |-> -1]

TInit == l = 1 /\ w = Empty /\ viol = {}

TNext ==
  /\ l <= Len(Rec)
  /\ LET r == Step(w, Rec[l]) IN
       /\ w' = r.w
       /\ viol' = viol \cup {[line |-> l, tid |-> r.w.tid, p |-> x[1], m |-> x[2], d |-> x[3]] : x \in r.f}
  /\ l' = l + 1

TSpec == TInit /\ [][TNext]_vars

\* always true; prints the verdict once the whole trace has been consumed
Verdict == (l = Len(Rec) + 1) => PrintT(<<"VERDICT", ToJson([n |-> Len(Rec), viol |-> viol])>>)

Accepted == TLCGet("stats").diameter = Len(Rec) + 1
=============================================================================
