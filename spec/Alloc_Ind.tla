------------------------------ MODULE Alloc_Ind ------------------------------
(***************************************************************************)
(* The entity allocator (src/world/entity.rs, struct Allocator) with        *)
(* UNBOUNDED generations and histories, for an inductive argument that      *)
(* complements the bounded exploration of World_L1 / World_MC:              *)
(*                                                                          *)
(*   gen[i]   ZeroableGeneration of index i: 0 never used, > 0 alive at     *)
(*            that generation, < 0 dead (last generation -gen[i])           *)
(*   alive    the `alive` bit set (merged live entities)                    *)
(*   raised   entities created through shared access, not merged yet        *)
(*   killed   deletions requested through shared access, not merged yet     *)
(*   cache    free list (multiplicity per index: a sound allocator never    *)
(*            holds an index twice - that is part of the invariant)         *)
(*   maxid    next never-used index                                         *)
(*                                                                          *)
(* History variables: top[i] = highest generation ever handed out for i,    *)
(* fresh = "the handle handed out last was new", peak = largest number of   *)
(* simultaneously not-dead entities so far.                                 *)
(*                                                                          *)
(* Safe == fresh /\ maxid <= peak is C01 (handles never repeat) and C17     *)
(* (the index space is bounded by the peak population) for this design.     *)
(* IndInv is inductive: Init => IndInv, IndInv /\ Next => IndInv',          *)
(* IndInv => Safe - checked by Apalache for N indices and arbitrary         *)
(* integers as generations (tools/ind_check.sh), i.e. for histories of any  *)
(* length, and by TLC on a bounded instance as a sanity check of the        *)
(* encoding.                                                                *)
(***************************************************************************)
EXTENDS Integers, FiniteSets

CONSTANT
  \* @type: Int;
  N

VARIABLES
  \* @type: Int -> Int;
  gen,
  \* @type: Set(Int);
  alive,
  \* @type: Set(Int);
  raised,
  \* @type: Set(Int);
  killed,
  \* @type: Int -> Int;
  cache,
  \* @type: Int;
  maxid,
  \* @type: Int -> Int;
  top,
  \* @type: Bool;
  fresh,
  \* @type: Int;
  peak

vars == <<gen, alive, raised, killed, cache, maxid, top, fresh, peak>>

Idx == 0..(N - 1)

InUse(i) == gen[i] > 0 \/ i \in raised
\* Allocator::entity(i).gen() - the generation a live handle of index i must carry
Cur(i) == IF gen[i] <= 0 /\ i \in raised THEN 1 - gen[i] ELSE IF gen[i] = 0 THEN 1 ELSE gen[i]
\* ZeroableGeneration::raise on a dead / unused slot
Raise(g) == 1 - g
\* Allocator::is_alive, for handles that some creation returned (a handle made up for a
\* never-allocated index is outside the properties)
IsAlive(i, g) == InUse(i) /\ g = Cur(i)
Population == Cardinality({i \in Idx : InUse(i)})
Max(a, b) == IF a >= b THEN a ELSE b

Init ==
  /\ gen = [i \in Idx |-> 0]
  /\ alive = {} /\ raised = {} /\ killed = {}
  /\ cache = [i \in Idx |-> 0]
  /\ maxid = 0
  /\ top = [i \in Idx |-> 0]
  /\ fresh = TRUE
  /\ peak = 0

\* the index the next allocation uses: any cached one (pop order is irrelevant here), else a new one
Pick(i) == IF \E j \in Idx : cache[j] > 0 THEN cache[i] > 0 ELSE i = maxid

\* Allocator::allocate (exclusive access)
Allocate(i) ==
  /\ Pick(i)
  /\ gen[i] <= 0                      \* raise() asserts the slot is not alive
  /\ LET g == Raise(gen[i]) IN
     /\ gen' = [gen EXCEPT ![i] = g]
     /\ fresh' = (g > top[i])
     /\ top' = [top EXCEPT ![i] = Max(@, g)]
  /\ alive' = alive \union {i}
  /\ cache' = [cache EXCEPT ![i] = IF @ > 0 THEN @ - 1 ELSE 0]
  /\ maxid' = IF \E j \in Idx : cache[j] > 0 THEN maxid ELSE maxid + 1
  /\ UNCHANGED <<raised, killed>>
  /\ peak' = Max(peak, Cardinality({j \in Idx : gen'[j] > 0 \/ j \in raised'}))

\* Allocator::allocate_atomic (shared access)
AllocateAtomic(i) ==
  /\ Pick(i)
  /\ LET g == IF gen[i] > 0 THEN gen[i] ELSE Raise(gen[i]) IN
     /\ fresh' = (g > top[i])
     /\ top' = [top EXCEPT ![i] = Max(@, g)]
  /\ raised' = raised \union {i}
  /\ cache' = [cache EXCEPT ![i] = IF @ > 0 THEN @ - 1 ELSE 0]
  /\ maxid' = IF \E j \in Idx : cache[j] > 0 THEN maxid ELSE maxid + 1
  /\ UNCHANGED <<gen, alive, killed>>
  /\ peak' = Max(peak, Cardinality({j \in Idx : gen'[j] > 0 \/ j \in raised'}))

\* Allocator::kill for one handle <<i, g>> (a batch is a sequence of these; a
\* failing element ends the batch after recycling the killed prefix)
Kill(i, g) ==
  /\ IsAlive(i, g)
  /\ alive' = alive \ {i}
  /\ killed' = killed \ {i}
  /\ raised' = raised \ {i}
  /\ gen' = [gen EXCEPT ![i] = 0 - (IF i \in raised THEN Raise(@) ELSE @)]
  /\ cache' = [cache EXCEPT ![i] = @ + 1]
  /\ UNCHANGED <<maxid, top, fresh, peak>>

\* Allocator::kill_atomic
KillAtomic(i, g) ==
  /\ IsAlive(i, g)
  /\ killed' = killed \union {i}
  /\ UNCHANGED <<gen, alive, raised, cache, maxid, top, fresh, peak>>

\* Allocator::merge
Merge ==
  LET g1 == [i \in Idx |-> IF i \in raised THEN Raise(gen[i]) ELSE gen[i]] IN
  /\ gen' = [i \in Idx |-> IF i \in killed THEN 0 - g1[i] ELSE g1[i]]
  /\ alive' = (alive \union raised) \ killed
  /\ raised' = {} /\ killed' = {}
  /\ cache' = [i \in Idx |-> IF i \in killed THEN cache[i] + 1 ELSE cache[i]]
  /\ UNCHANGED <<maxid, top, fresh, peak>>

Next ==
  \/ \E i \in Idx : Allocate(i) \/ AllocateAtomic(i)
  \/ \E i \in Idx : Kill(i, Cur(i)) \/ KillAtomic(i, Cur(i))     \* (a handle with another generation is refused: no step)
  \/ Merge
  \/ UNCHANGED vars

Spec == Init /\ [][Next]_vars

\* ------------------------------------------------------------ properties
Safe == fresh /\ maxid <= peak

TypeOK ==
  /\ gen \in [Idx -> Int] /\ top \in [Idx -> Int] /\ cache \in [Idx -> 0..1]
  /\ alive \in SUBSET Idx /\ raised \in SUBSET Idx /\ killed \in SUBSET Idx
  /\ maxid \in 0..N /\ peak \in 0..N /\ fresh \in BOOLEAN

\* (TLC checks Inv on a bounded instance; Apalache needs the typing conjunct of IndInv)
Inv ==
  /\ fresh
  \* nothing beyond maxid has ever been touched
  /\ \A i \in Idx : i >= maxid => (gen[i] = 0 /\ i \notin alive /\ i \notin raised /\ i \notin killed /\ cache[i] = 0 /\ top[i] = 0)
  \* the alive bit set mirrors the generation table; unmerged creations sit on dead / unused slots
  /\ \A i \in Idx : (i \in alive) <=> (gen[i] > 0)
  /\ \A i \in raised : gen[i] <= 0
  /\ killed \subseteq (alive \union raised)
  \* the free list holds exactly the free indices below maxid, once each
  /\ \A i \in Idx : (cache[i] = 1) <=> (i < maxid /\ ~InUse(i))
  \* the highest generation ever handed out for an index is determined by the slot
  /\ \A i \in Idx : i < maxid => top[i] = (IF InUse(i) THEN Cur(i) ELSE 0 - gen[i])
  /\ \A i \in Idx : i < maxid => top[i] >= 1
  \* index space bounded by the peak population
  /\ maxid <= peak /\ Population <= peak

IndInv == TypeOK /\ Inv

\* for Apalache's second step (IndInv /\ Next => IndInv')
IndInit == IndInv
=============================================================================
