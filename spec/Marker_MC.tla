----------------------------- MODULE Marker_MC -----------------------------
(* TLC harness for Marker_L1: every history of create / mark / delete /     *)
(* set-reference / allocator-maintain / save / load (own data, synthetic    *)
(* data around the counter) within the bounds; events checked by            *)
(* SaveLoad_L0 (C14 / C15), Marker_L1!Struct, one script per transition.    *)
EXTENDS Marker_L1, Json

CONSTANTS MaxOps, MaxId, Emit,
          RetrMax    \* ids 0..RetrMax are retrieved directly (retrieve_entity called by the script)

L0 == INSTANCE SaveLoad_L0

VARIABLES st, S, viol, hist, created, blob

SynthMenu ==
  {<<[m |-> i, a |-> <<7>>, b |-> None, r |-> None]>> : i \in 0..MaxId}
  \cup {<<[m |-> i, a |-> None, b |-> None, r |-> <<<<j>>>>]>> : i \in 0..MaxId, j \in 0..MaxId}
  \cup {<<[m |-> 1, a |-> <<8>>, b |-> None, r |-> <<<<0>>>>], [m |-> 0, a |-> <<9>>, b |-> None, r |-> None]>>}

\* entities the script can name: those it created itself (a load creates more)
Live == DOMAIN st.ents \cap {created[k] : k \in 1..Len(created)}
Pos(h) == CHOOSE k \in 1..Len(created) : created[k] = h

Ops ==
     (IF CanCreate(st) THEN {[o |-> "create", a |-> a] : a \in {None, <<1>>}} ELSE {})
  \cup {[o |-> "mark", h |-> created[k], k |-> k] : k \in 1..Len(created)}
  \cup {[o |-> "delete", h |-> h, k |-> Pos(h)] : h \in Live}
  \cup {[o |-> "setr", h |-> h, k |-> Pos(h), v |-> None, vk |-> <<>>] : h \in Live}
  \cup {[o |-> "setr", h |-> h, k |-> Pos(h), v |-> <<<<t>>>>, vk |-> <<Pos(t)>>] : h \in Live, t \in Live}
  \cup {[o |-> "amaintain"], [o |-> "save"]}
  \cup {[o |-> "retrieve", m |-> m] : m \in {x \in 0..RetrMax : CanCreate(st) \/ (x \in DOMAIN st.map /\ HasMarker(st, st.map[x]))}}
  \cup (IF blob.ok /\ Needed(st, blob.d) <= Cardinality(Free(st)) THEN {[o |-> "load", recs |-> blob.d, own |-> TRUE]} ELSE {})
  \cup {[o |-> "load", recs |-> r, own |-> FALSE] : r \in {x \in SynthMenu : Needed(st, x) <= Cardinality(Free(st))}}

MCInit == /\ st = Init0 /\ S = L0!S0(1, 0) /\ viol = {} /\ hist = <<>> /\ created = <<>> /\ blob = [ok |-> FALSE, d |-> <<>>]

MCNext ==
  /\ Len(hist) < MaxOps
  /\ \E op \in Ops :
       LET r == Exec(st, op)
           z == L0!Step(S, r.ev)
           \* a plain save whose references are not all marked is unspecified: keep it out of the data
           saved == op.o = "save" /\ \A h \in Marked(st) : Convertible(st, h)
       IN /\ (op.o # "save" \/ saved)
          /\ st' = r.st /\ S' = z.S /\ viol' = viol \cup z.f
          /\ created' = IF op.o = "create" THEN Append(created, r.ev.h)
                         ELSE IF op.o = "retrieve" THEN Append(created, r.ev.res) ELSE created
          /\ blob' = IF saved THEN [ok |-> TRUE, d |-> r.ev.data] ELSE blob
          /\ hist' = Append(hist, op)
          /\ (Emit => PrintT(<<"SCRIPT", ToJson(Append(hist, op))>>))

MCSpec == MCInit /\ [][MCNext]_<<st, S, viol, hist, created, blob>>

Bound == st.ctr <= MaxId + 2
View == <<st, S, created, blob>>
NoViol == viol = {}
StructInv == Struct(st)
=============================================================================
