------------------------------ MODULE Conc_L0 ------------------------------
(***************************************************************************)
(* Property-level specification of C10 as a function of one logged         *)
(* concurrent run: several threads created entities, requested deletions   *)
(* and queued lazy actions through shared access, then one maintain ran.   *)
(* Only order-free facts are stated, so no linearization has to be         *)
(* searched for: handles pairwise distinct and alive for their creator on  *)
(* return, every deletion request for a live handle succeeded (and one     *)
(* for a dead handle was refused), after maintain alive = initial +        *)
(* created - requested, every queued action ran exactly once.              *)
(***************************************************************************)
EXTENDS Naturals, Integers, Sequences, FiniteSets, TLC

F(p, m, d) == <<p, m, ToString(d)>>
SeqToSet(q) == {q[i] : i \in 1..Len(q)}

SortedById(S) ==
  LET ids == {h[1] : h \in S}
      RECURSIVE B(_, _)
      B(rest, acc) == IF rest = {} THEN acc
                      ELSE LET m == CHOOSE x \in rest : \A y \in rest : x <= y
                           IN B(rest \ {m}, acc \o <<CHOOSE h \in S : h[1] = m>>)
  IN B(ids, <<>>)

\* all ops of all threads, flattened
Ops(ev) == LET RECURSIVE Fl(_) Fl(t) == IF t > Len(ev.threads) THEN <<>> ELSE ev.threads[t] \o Fl(t + 1) IN Fl(1)

\* ev.post: after the parallel phase and before maintain, exclusive access deleted these entities
\* (all created in this frame) with one World::delete_entities call
PostDeleted(ev) == IF "post" \in DOMAIN ev THEN SeqToSet(ev.post.hs) ELSE {}

\* ev.frame > 0: a later frame of the same world; prev = the alive set this monitor
\* expected after the previous frame's maintain (the harness' own observation of
\* the initial aliveness must agree with it)
WantAlive(ev, prev) ==
  LET ops == Ops(ev)
      initLive == IF ev.frame = 0 THEN {<<ev.init[k][1], ev.init[k][2]>> : k \in {j \in 1..Len(ev.init) : ev.init[j][3]}} ELSE prev
      cr == SelectSeq(ops, LAMBDA o : o.o = "create")
      de == SelectSeq(ops, LAMBDA o : o.o = "delete")
      liveH == initLive \cup {cr[k].h : k \in 1..Len(cr)}
  IN ((liveH \ {de[k].h : k \in {j \in 1..Len(de) : de[j].h \in liveH}}) \ PostDeleted(ev))
     \cup (IF "lazy_created" \in DOMAIN ev THEN SeqToSet(ev.lazy_created) ELSE {})

Check(ev, prev) ==
  LET ops == Ops(ev)
      obsLive == {<<ev.init[k][1], ev.init[k][2]>> : k \in {j \in 1..Len(ev.init) : ev.init[j][3]}}
      initLive == IF ev.frame = 0 THEN obsLive ELSE prev
      initAll  == {<<ev.init[k][1], ev.init[k][2]>> : k \in 1..Len(ev.init)}
      cr == SelectSeq(ops, LAMBDA o : o.o = "create")
      created == {cr[k].h : k \in 1..Len(cr)}
      de == SelectSeq(ops, LAMBDA o : o.o = "delete")
      liveH == initLive \cup created
      requested == {de[k].h : k \in {j \in 1..Len(de) : de[j].h \in liveH}}
      \* entities created through exclusive access by lazy actions while maintain ran
      lzc == IF "lazy_created" \in DOMAIN ev THEN SeqToSet(ev.lazy_created) ELSE {}
      wantAlive == ((liveH \ requested) \ PostDeleted(ev)) \cup lzc
      \* lazily queued batch insertions: every request whose entity is alive after maintain has been applied
      \* (each entity gets at most one request), the others lapse
      li == SelectSeq(ops, LAMBDA o : o.o = "lazyins")
      reqs == UNION {SeqToSet(li[k].items) : k \in 1..Len(li)}
      \* ... and so has every insertion a lazy action queued, while maintain ran, for an entity it had just created
      nested == IF "lazy_nested" \in DOMAIN ev THEN SeqToSet(ev.lazy_nested) ELSE {}
      wantComps == {r \in reqs : r[1] \in wantAlive} \cup nested
      jo == SelectSeq(ops, LAMBDA o : o.o = "join")
      lz == SelectSeq(ops, LAMBDA o : o.o = "lazy")
      queued == [k \in 1..Len(lz) |-> lz[k].tag]
      pn == SelectSeq(ops, LAMBDA o : o.o = "panic")
  IN IF ev.frame > 0 /\ obsLive # (prev \cap {<<ev.init[k][1], ev.init[k][2]>> : k \in 1..Len(ev.init)})
     THEN {F("C10", "alive set at the start of a frame differs from the one expected after the previous maintain (observed, expected)", <<obsLive, prev>>)}
     ELSE IF ev.hang THEN {F("C10", "an operation did not complete (hang)", ev.tid)}
     ELSE IF Len(pn) > 0 THEN {F("C10", "panic in a worker thread", pn[1].msg)} ELSE
       (IF Cardinality(created) # Len(cr) \/ Cardinality({h[1] : h \in created}) # Len(cr)
        THEN {F("C10", "created handles are not pairwise distinct", [k \in 1..Len(cr) |-> cr[k].h]),
              F("C01", "created handles are not pairwise distinct", [k \in 1..Len(cr) |-> cr[k].h])} ELSE {})
  \cup (IF \E h \in created : h \in initAll \/ h[1] \in {g[1] : g \in initLive}
        THEN {F("C10", "a created handle collides with an existing entity", [k \in 1..Len(cr) |-> cr[k].h]),
              F("C01", "a created handle collides with an existing entity", [k \in 1..Len(cr) |-> cr[k].h])} ELSE {})
  \* C17 under shared access: a creator takes a never-used index only when it found the free list empty,
  \* so at most (creations - free indices at the start of the frame) never-used indices are taken
  \* (first frame only: there the harness knows every index handed out so far)
  \cup (IF ev.frame = 0 /\ Len(cr) > 0
        THEN LET nknown == Len(ev.init)
                 nfree == Cardinality({k \in 1..Len(ev.init) : ~ev.init[k][3]})
                 extra == IF Len(cr) > nfree THEN Len(cr) - nfree ELSE 0
                 high == {h \in created : h[1] >= nknown + extra}
             IN IF high # {} THEN {F("C17", "a creation through shared access took a never-used index while recycled ones were free (handles, indices so far, free, creations)", <<high, nknown, nfree, Len(cr)>>)} ELSE {}
        ELSE {})
  \cup {F("C10", "own handle not alive when the creation returned", cr[k].h) : k \in {j \in 1..Len(cr) : ~cr[j].alive}}
  \cup {F("C10", "deletion request: result differs from the handle's aliveness (handle, result)", <<de[k].h, de[k].ok>>)
          : k \in {j \in 1..Len(de) : de[j].ok # (de[j].h \in liveH)}}
  \* (ev.post.stale: the batch ended with an already dead handle - then, and only then, the call fails,
  \* after deleting the live ones before it)
  \cup (IF "post" \in DOMAIN ev /\ ev.post.ok # ~("stale" \in DOMAIN ev.post /\ ev.post.stale)
        THEN {F("C10", "deleting entities created in this frame (alive, not merged yet) through exclusive access: wrong result (handles, result)", <<ev.post.hs, ev.post.ok>>)} ELSE {})
  \cup (IF SeqToSet(ev.after.alive) # wantAlive
        THEN {F("C10", "after maintain: alive # initial + created - requested (got, expected)", <<ev.after.alive, SortedById(wantAlive)>>)} ELSE {})
  \cup (IF lzc \cap (initAll \cup created) # {} \/ Cardinality(lzc) # (IF "lazy_created" \in DOMAIN ev THEN Len(ev.lazy_created) ELSE 0)
        THEN {F("C10", "an entity created by a lazy action collides with another handle", ev.lazy_created),
              F("C01", "an entity created by a lazy action collides with another handle", ev.lazy_created)} ELSE {})
  \cup (IF "comps" \in DOMAIN ev.after /\ SeqToSet(ev.after.comps) # wantComps
        THEN {F("C10", "lazily queued insertions: a request for an entity that is alive after maintain was lost, or a lapsed one applied (got, expected)", <<ev.after.comps, wantComps>>)} ELSE {})
  \cup (IF ev.after.join # SortedById(wantAlive)
        THEN {F("C10", "after maintain: entities join (got, expected)", <<ev.after.join, SortedById(wantAlive)>>)} ELSE {})
  \cup {F("C10", "a join during the run missed a live entity or yielded an unknown handle", jo[k].hs)
          : k \in {j \in 1..Len(jo) : ~(initLive \subseteq SeqToSet(jo[j].hs) /\ SeqToSet(jo[j].hs) \subseteq liveH)}}
  \* (equal as multisets; the first disjunct is the same statement for the usual case of distinct tags,
  \* decided without the quadratic count - floods queue thousands of actions in one frame)
  \cup (IF ~(Len(queued) = Len(ev.lazy_ran) /\ Cardinality(SeqToSet(queued)) = Len(queued) /\ SeqToSet(queued) = SeqToSet(ev.lazy_ran))
           /\ \E x \in SeqToSet(queued) \cup SeqToSet(ev.lazy_ran) :
             Cardinality({k \in 1..Len(queued) : queued[k] = x}) # Cardinality({k \in 1..Len(ev.lazy_ran) : ev.lazy_ran[k] = x})
        THEN {F("C10", "queued lazy actions did not each run exactly once (queued, ran)", <<queued, ev.lazy_ran>>)} ELSE {})
=============================================================================
