----------------------------- MODULE World_L1 -----------------------------
(***************************************************************************)
(* Implementation-shaped model of the "world" domain of amethyst/specs:    *)
(* the entity allocator (src/world/entity.rs), component storages behind   *)
(* their masks as seen through Storage<..> (src/storage/mod.rs),           *)
(* World::delete_* / maintain (src/world/world_ext.rs) and the lazy queue  *)
(* (src/world/lazy.rs).  One operator per critical section of the code,    *)
(* same data structures:                                                   *)
(*                                                                         *)
(*   gens    index -> Int    0 = never used (ZeroableGeneration(None)),    *)
(*                           g > 0 alive with generation g, g < 0 dead     *)
(*   alive   BitSet          raised, killed  AtomicBitSet                  *)
(*   cache   the free list Vec<Index>;  clen  its AtomicUsize length that  *)
(*           deferred pops only decrement (EntityCache)                    *)
(*   maxId   AtomicUsize counter                                           *)
(*   comps   per storage: index -> <<cid, val>>, DOMAIN = the mask         *)
(*   lazyq   the SegQueue of boxed closures                                *)
(*                                                                         *)
(* The model is a deterministic function Exec(st, op) -> [st, evs]: the    *)
(* new state and the sequence of events (same vocabulary as the traces     *)
(* recorded from the real code, including the observation sweep) that the  *)
(* operation produces.  World_MC feeds those events to World_L0!Step, so   *)
(* TLC checks "L1 => L0" in exactly the terms used for trace validation.   *)
(*                                                                         *)
(* Deliberate deviations: generation overflow is not modelled; the         *)
(* MetaTable of storages is the fixed set 1..S; `FixKill = FALSE`          *)
(* reproduces the defect repaired by the "fix:" commit (prefix of a        *)
(* failing batch not recycled).                                            *)
(***************************************************************************)
EXTENDS Naturals, Integers, Sequences, FiniteSets, TLC

CONSTANTS MaxIdx,      \* indices 0..MaxIdx-1
          S,           \* number of storages
          FixKill      \* TRUE = the repaired Allocator::kill

\* top-level creations are limited to MaxIdx indices by the model checker; closures
\* running inside maintain may create a few more (slack)
Idx == 0..(MaxIdx + 3)

Absent == <<>>
Refused == <<-1>>

Raised(g) == 1 - g                       \* ZeroableGeneration::raised, g <= 0

Init0 ==
  [ gens |-> [i \in Idx |-> 0], alive |-> {}, raised |-> {}, killed |-> {},
    cache |-> <<>>, clen |-> 0, maxId |-> 0,
    comps |-> [s \in 1..S |-> <<>>],
    lazyq |-> <<>>, handles |-> <<>>, ncid |-> 0, nval |-> 100, nlazy |-> 0 ]

\* Allocator::is_alive / entity()
CurGen(st, i) == IF st.gens[i] <= 0 /\ i \in st.raised THEN Raised(st.gens[i])
                 ELSE IF st.gens[i] = 0 THEN 1 ELSE st.gens[i]
IsAlive(st, e) == e[1] \in Idx /\ e[2] = CurGen(st, e[1])

\* generation reported by the entities join / allocate_atomic
JoinGen(st, i) == IF st.gens[i] > 0 THEN st.gens[i] ELSE Raised(st.gens[i])

Trunc(st) == SubSeq(st.cache, 1, st.clen)          \* EntityCache::maintain

FnSet(f, k, v) == [x \in DOMAIN f \cup {k} |-> IF x = k THEN v ELSE f[x]]
FnDel(f, ks)   == [x \in DOMAIN f \ ks |-> f[x]]

\* ------------------------------------------------------------------ sweep
SeqOfSet(T) ==   \* ascending sequence of a set of naturals
  LET RECURSIVE B(_, _)
      B(rest, acc) == IF rest = {} THEN acc
                      ELSE LET m == CHOOSE x \in rest : \A y \in rest : x <= y IN B(rest \ {m}, Append(acc, m))
  IN B(T, <<>>)

Get(st, s, e) == IF e[1] \in DOMAIN st.comps[s] /\ IsAlive(st, e) THEN st.comps[s][e[1]] ELSE Absent

Obs(st) ==
  LET hs == st.handles
      ids == SeqOfSet(st.alive \cup st.raised)
  IN [ hs |-> hs,
       alive |-> [k \in 1..Len(hs) |-> IsAlive(st, hs[k])],
       walive |-> [k \in 1..Len(hs) |-> IF st.gens[hs[k][1]] = hs[k][2] THEN 1 ELSE 0],
       join |-> [k \in 1..Len(ids) |-> <<ids[k], JoinGen(st, ids[k])>>],
       st |-> [s \in 1..S |-> [ mask |-> SeqOfSet(DOMAIN st.comps[s]),
                                get |-> [k \in 1..Len(hs) |-> Get(st, s, hs[k])] ]] ]

Ev(st, r) == [x \in DOMAIN r \cup {"obs"} |-> IF x = "obs" THEN Obs(st) ELSE r[x]]

\* ------------------------------------------------------------ allocator
\* Allocator::allocate (exclusive)
Allocate(st) ==
  LET t == Trunc(st) IN
  IF Len(t) > 0
  THEN LET id == t[Len(t)] g == Raised(st.gens[id]) IN
       [st |-> [st EXCEPT !.cache = SubSeq(t, 1, Len(t) - 1), !.clen = Len(t) - 1,
                           !.alive = @ \cup {id}, !.gens[id] = g], e |-> <<id, g>>]
  ELSE LET id == st.maxId g == Raised(st.gens[id]) IN
       [st |-> [st EXCEPT !.cache = t, !.clen = 0, !.maxId = id + 1,
                           !.alive = @ \cup {id}, !.gens[id] = g], e |-> <<id, g>>]

\* Allocator::allocate_atomic (shared)
AllocateAtomic(st) ==
  IF st.clen > 0
  THEN LET id == st.cache[st.clen] IN
       [st |-> [st EXCEPT !.clen = @ - 1, !.raised = @ \cup {id}], e |-> <<id, JoinGen(st, id)>>]
  ELSE LET id == st.maxId IN
       [st |-> [st EXCEPT !.maxId = @ + 1, !.raised = @ \cup {id}], e |-> <<id, JoinGen(st, id)>>]

\* Allocator::kill : loop stops at the first handle that is not alive
RECURSIVE KillLoop(_, _, _)
KillLoop(st, batch, k) ==
  IF k > Len(batch) THEN [st |-> st, n |-> Len(batch), ok |-> TRUE]
  ELSE LET e == batch[k] id == e[1] IN
       IF ~IsAlive(st, e) THEN [st |-> st, n |-> k - 1, ok |-> FALSE]
       ELSE LET g1 == IF id \in st.raised THEN Raised(st.gens[id]) ELSE st.gens[id]
                st1 == [st EXCEPT !.alive = @ \ {id}, !.killed = @ \ {id}, !.raised = @ \ {id},
                                  !.gens[id] = 0 - g1]
            IN KillLoop(st1, batch, k + 1)

Kill(st, batch) ==
  LET r == KillLoop(st, batch, 1)
      ids == [k \in 1..r.n |-> batch[k][1]]
      st2 == IF r.ok \/ FixKill
             THEN [r.st EXCEPT !.cache = Trunc(r.st) \o ids, !.clen = Len(Trunc(r.st)) + r.n]
             ELSE r.st
  IN [st |-> st2, n |-> r.n, ok |-> r.ok]

\* Allocator::merge
Merge(st) ==
  LET g1 == [i \in Idx |-> IF i \in st.raised THEN Raised(st.gens[i]) ELSE st.gens[i]]
      alive1 == st.alive \cup st.raised
      dead == SeqOfSet(st.killed)
      deleted == [k \in 1..Len(dead) |-> <<dead[k], g1[dead[k]]>>]
      g2 == [i \in Idx |-> IF i \in st.killed THEN 0 - g1[i] ELSE g1[i]]
  IN [st |-> [st EXCEPT !.gens = g2, !.alive = alive1 \ st.killed, !.raised = {}, !.killed = {},
                         !.cache = Trunc(st) \o dead, !.clen = Len(Trunc(st)) + Len(dead)],
      deleted |-> deleted]

\* ------------------------------------------------------------- storages
\* World::delete_components -> MaskedStorage::drop(id) for every storage
PurgeIds(st, ids) == [st EXCEPT !.comps = [s \in 1..S |-> FnDel(st.comps[s], ids)]]

\* Storage::insert
Insert(st, s, e, c) ==
  IF IsAlive(st, e)
  THEN [st |-> [st EXCEPT !.comps[s] = FnSet(st.comps[s], e[1], c)],
        res |-> IF e[1] \in DOMAIN st.comps[s] THEN st.comps[s][e[1]] ELSE Absent]
  ELSE [st |-> st, res |-> Refused]

\* Storage::remove
Remove(st, s, e) ==
  IF IsAlive(st, e) /\ e[1] \in DOMAIN st.comps[s]
  THEN [st |-> [st EXCEPT !.comps[s] = FnDel(st.comps[s], {e[1]})], res |-> st.comps[s][e[1]]]
  ELSE [st |-> st, res |-> Absent]

\* ------------------------------------------------------------ operations
\* every operation returns [st, evs]
NewC(st) == <<st.ncid + 1, st.nval + 1>>
BumpC(st) == [st EXCEPT !.ncid = @ + 1, !.nval = @ + 1]

RECURSIVE AttachNow(_, _, _, _)
AttachNow(st, e, with, k) ==      \* Builder::with : storage.insert(entity, c).unwrap()
  IF k > Len(with) THEN [st |-> st, cs |-> <<>>]
  ELSE LET c == NewC(st)
           r == Insert(BumpC(st), with[k], e, c)
           rest == AttachNow(r.st, e, with, k + 1)
       IN [st |-> rest.st, cs |-> <<<<with[k], c>>>> \o rest.cs]

RECURSIVE AttachLazy(_, _, _, _)
AttachLazy(st, e, with, k) ==     \* LazyBuilder::with : lazy.exec(insert)
  IF k > Len(with) THEN [st |-> st, cs |-> <<>>]
  ELSE LET c == NewC(st)
           st1 == [BumpC(st) EXCEPT !.lazyq = Append(@, [k |-> "ins", s |-> with[k], h |-> e, c |-> c])]
           rest == AttachLazy(st1, e, with, k + 1)
       IN [st |-> rest.st, cs |-> <<<<with[k], c>>>> \o rest.cs]

Record(st, e) == [st EXCEPT !.handles = Append(@, e)]

CreatedEv(st, path, e, cs) == Ev(st, [op |-> "Created", path |-> path, h |-> e, with |-> cs])

ExecSimple(st, op) ==
  CASE op.o = "create" ->
         LET a == Allocate(st) r == AttachNow(a.st, a.e, op.with, 1) st2 == Record(r.st, a.e)
         IN [st |-> st2, evs |-> <<CreatedEv(st2, "now", a.e, r.cs)>>]
    [] op.o = "create_drop" ->     \* builder dropped unfinished: Entities::delete
         LET a == Allocate(st) r == AttachNow(a.st, a.e, op.with, 1)
             st2 == Record([r.st EXCEPT !.killed = @ \cup {a.e[1]}], a.e)
         IN [st |-> st2, evs |-> <<CreatedEv(st2, "drop", a.e, r.cs)>>]
    [] op.o = "ecreate" ->
         LET a == AllocateAtomic(st) st2 == Record(a.st, a.e)
         IN [st |-> st2, evs |-> <<CreatedEv(st2, "ecreate", a.e, <<>>)>>]
    [] op.o = "ebuild" ->
         LET a == AllocateAtomic(st) r == AttachNow(a.st, a.e, op.with, 1) st2 == Record(r.st, a.e)
         IN [st |-> st2, evs |-> <<CreatedEv(st2, "ebuild", a.e, r.cs)>>]
    [] op.o = "ebuild_drop" ->
         LET a == AllocateAtomic(st) r == AttachNow(a.st, a.e, op.with, 1)
             st2 == Record([r.st EXCEPT !.killed = @ \cup {a.e[1]}], a.e)
         IN [st |-> st2, evs |-> <<CreatedEv(st2, "ebuild_drop", a.e, r.cs)>>]
    [] op.o = "lcreate" ->
         LET a == AllocateAtomic(st) r == AttachLazy(a.st, a.e, op.with, 1) st2 == Record(r.st, a.e)
         IN [st |-> st2, evs |-> <<CreatedEv(st2, "lazy", a.e, r.cs)>>]
    [] op.o = "delete" ->          \* World::delete_entity = delete_entities(&[e])
         LET e == st.handles[op.h] r == Kill(st, <<e>>)
             st2 == PurgeIds(r.st, IF r.ok THEN {e[1]} ELSE {})
         IN [st |-> st2, evs |-> <<Ev(st2, [op |-> "Delete", h |-> e, ok |-> r.ok])>>]
    [] op.o = "delete_batch" ->    \* purge exactly the killed prefix
         LET b == [k \in 1..Len(op.hs) |-> st.handles[op.hs[k]]]
             r == Kill(st, b)
             st2 == PurgeIds(r.st, {b[k][1] : k \in 1..r.n})
         IN [st |-> st2, evs |-> <<Ev(st2, [op |-> "DeleteBatch", hs |-> b, ok |-> r.ok,
                                             pos |-> IF r.ok THEN 0 - 1 ELSE r.n])>>]
    [] op.o = "edelete" ->         \* Allocator::kill_atomic
         LET e == st.handles[op.h] ok == IsAlive(st, e)
             st2 == IF ok THEN [st EXCEPT !.killed = @ \cup {e[1]}] ELSE st
         IN [st |-> st2, evs |-> <<Ev(st2, [op |-> "EDelete", h |-> e, ok |-> ok])>>]
    [] op.o = "delete_all" ->      \* collect the entities join, delete_entities
         LET ids == SeqOfSet(st.alive \cup st.raised)
             b == [k \in 1..Len(ids) |-> <<ids[k], JoinGen(st, ids[k])>>]
             r == Kill(st, b)
             st2 == PurgeIds(r.st, {b[k][1] : k \in 1..r.n})
         IN [st |-> st2, evs |-> <<Ev(st2, [op |-> "DeleteAll"])>>]
    [] op.o = "sop" ->
         LET e == st.handles[op.h] s == op.s
             base == [op |-> "SOp", cls |-> op.cls, path |-> op.cls, s |-> s, h |-> e]
         IN (CASE op.cls = "read" ->
                   [st |-> st, evs |-> <<Ev(st, base @@ [res |-> Get(st, s, e), c |-> <<0, 0>>, val |-> 0 - 1])>>]
              [] op.cls = "write" ->      \* Storage::get_mut + write
                   LET old == Get(st, s, e) v == st.nval + 1
                       st2 == IF old = Absent THEN st
                              ELSE [st EXCEPT !.comps[s][e[1]] = <<old[1], v>>, !.nval = v]
                   IN [st |-> st2, evs |-> <<Ev(st2, base @@ [res |-> old, c |-> <<0, 0>>, val |-> v])>>]
              [] op.cls = "insert" ->
                   LET c == NewC(st) r == Insert(BumpC(st), s, e, c)
                   IN [st |-> r.st, evs |-> <<Ev(r.st, base @@ [res |-> r.res, c |-> c, val |-> 0 - 1])>>]
              [] op.cls = "orins" ->      \* Storage::entry(e)?.or_insert(c)
                   LET c == NewC(st) st1 == BumpC(st) IN
                   IF ~IsAlive(st1, e)
                   THEN [st |-> st1, evs |-> <<Ev(st1, base @@ [res |-> Refused, c |-> c, val |-> 0 - 1])>>]
                   ELSE IF e[1] \in DOMAIN st1.comps[s]
                        THEN [st |-> st1, evs |-> <<Ev(st1, base @@ [res |-> st1.comps[s][e[1]], c |-> c, val |-> 0 - 1])>>]
                        ELSE LET r == Insert(st1, s, e, c)
                             IN [st |-> r.st, evs |-> <<Ev(r.st, base @@ [res |-> c, c |-> c, val |-> 0 - 1])>>]
              [] op.cls = "remove" ->
                   LET r == Remove(st, s, e)
                   IN [st |-> r.st, evs |-> <<Ev(r.st, base @@ [res |-> r.res, c |-> <<0, 0>>, val |-> 0 - 1])>>]
              [] op.cls = "gmod" ->       \* get_mut_or_default: contains? else insert default; get_mut
                   LET st1 == IF Get(st, s, e) = Absent /\ IsAlive(st, e)
                              THEN [st EXCEPT !.comps[s] = FnSet(st.comps[s], e[1], <<0, 0>>)] ELSE st
                       old == Get(st1, s, e) v == st.nval + 1
                       st2 == IF old = Absent THEN st1
                              ELSE [st1 EXCEPT !.comps[s][e[1]] = <<old[1], v>>, !.nval = v]
                   IN [st |-> st2, evs |-> <<Ev(st2, base @@ [res |-> old, c |-> <<0, 0>>, val |-> v])>>])
    [] op.o = "linsert" ->
         LET e == st.handles[op.h] c == NewC(st)
             st2 == [BumpC(st) EXCEPT !.lazyq = Append(@, [k |-> "ins", s |-> op.s, h |-> e, c |-> c])]
         IN [st |-> st2, evs |-> <<Ev(st2, [op |-> "LazyQueue", k |-> "ins", s |-> op.s, h |-> e, c |-> c])>>]
    [] op.o = "lremove" ->
         LET e == st.handles[op.h]
             st2 == [st EXCEPT !.lazyq = Append(@, [k |-> "rem", s |-> op.s, h |-> e])]
         IN [st |-> st2, evs |-> <<Ev(st2, [op |-> "LazyQueue", k |-> "rem", s |-> op.s, h |-> e])>>]
    [] op.o = "lexec" ->
         LET id == st.nlazy + 1
             st2 == [st EXCEPT !.nlazy = id, !.lazyq = Append(@, [k |-> "exec", id |-> id, body |-> op.body])]
         IN [st |-> st2, evs |-> <<Ev(st2, [op |-> "LazyQueue", k |-> "exec", id |-> id])>>]

\* body of a closure: simple operations only (no nested maintain)
RECURSIVE RunBody(_, _, _)
RunBody(st, body, k) ==
  IF k > Len(body) THEN [st |-> st, evs |-> <<>>]
  ELSE LET ok == ~("h" \in DOMAIN body[k]) \/ body[k].h <= Len(st.handles)
           r == IF ok THEN ExecSimple(st, body[k]) ELSE [st |-> st, evs |-> <<>>]
           rest == RunBody(r.st, body, k + 1)
       IN [st |-> rest.st, evs |-> r.evs \o rest.evs]

\* LazyUpdate::maintain : while let Some(l) = queue.pop() { l.update(world) }
RECURSIVE Drain(_, _)
Drain(st, fuel) ==
  IF st.lazyq = <<>> \/ fuel = 0 THEN [st |-> st, evs |-> <<>>]
  ELSE LET a == Head(st.lazyq) st1 == [st EXCEPT !.lazyq = Tail(@)] IN
       IF a.k = "ins" THEN Drain(Insert(st1, a.s, a.h, a.c).st, fuel - 1)
       ELSE IF a.k = "rem" THEN Drain(Remove(st1, a.s, a.h).st, fuel - 1)
       ELSE LET run == Ev(st1, [op |-> "LazyRun", id |-> a.id])
                b == RunBody(st1, a.body, 1)
                rest == Drain(b.st, fuel - 1)
            IN [st |-> rest.st, evs |-> <<run>> \o b.evs \o rest.evs]

\* World::maintain : merge, purge the merged deletions, drain the lazy queue
Maintain(st) ==
  LET m == Merge(st)
      st1 == PurgeIds(m.st, {m.deleted[k][1] : k \in 1..Len(m.deleted)})
      d == Drain(st1, 8)
  IN [st |-> d.st, evs |-> <<[op |-> "MaintainBegin"]>> \o d.evs \o <<Ev(d.st, [op |-> "MaintainEnd"])>>]

Exec(st, op) == IF op.o = "maintain" THEN Maintain(st) ELSE ExecSimple(st, op)

\* ------------------------------------------------- structural invariants
Struct(st) ==
  /\ st.alive \cap st.raised = {}
  /\ \A i \in Idx : (i \in st.alive) <=> (st.gens[i] > 0)
  /\ st.clen <= Len(st.cache)
  /\ \A k \in 1..st.clen : st.cache[k] \notin (st.alive \cup st.raised) /\ st.cache[k] < st.maxId
  /\ \A j, k \in 1..st.clen : j # k => st.cache[j] # st.cache[k]
  /\ \A i \in st.alive \cup st.raised : i < st.maxId
  /\ st.killed \subseteq st.alive \cup st.raised
  /\ \A s \in 1..S : DOMAIN st.comps[s] \subseteq st.alive \cup st.raised

\* every dead index below the counter is on the free list (C17 at L1 level)
Recycle(st) ==
  \A i \in Idx : (i < st.maxId /\ i \notin st.alive \cup st.raised) => \E k \in 1..st.clen : st.cache[k] = i
=============================================================================
