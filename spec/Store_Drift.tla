----------------------------- MODULE Store_Drift -----------------------------
(***************************************************************************)
(* Conformance of Store_L1 to the code (impl -> L1), informational.  The    *)
(* histories TLC emitted from Store_MC are replayed on the real storage;    *)
(* here TLC re-executes each of them on Store_L1 and compares what the      *)
(* model predicts with what the code did.  Component ids and written        *)
(* values are numbered differently by the harness, so the comparison is on  *)
(* what both sides number identically: the mask and which lookups are       *)
(* present after every step, counts, the members a join or drain yields,    *)
(* the kind and order of change events, and - the layout itself - for the   *)
(* raw slot views the OWNER of every slot (the dense vector's order, the    *)
(* occupied slots of the sparse ones).  A mismatch is DRIFT, never a        *)
(* property violation.                                                      *)
(***************************************************************************)
EXTENDS Store_L1, Json, IOUtils

Scripts == ndJsonDeserialize(IOEnv.SCRIPTS)    \* [tid, ops]
Rec == ndJsonDeserialize(IOEnv.TRACE)

VARIABLES k, l, drift
vars == <<k, l, drift>>

Present(v) == v # <<>>
ObsP(o) == [mask |-> o.st[1].mask, has |-> [i \in 1..Len(o.st[1].get) |-> Present(o.st[1].get[i])],
            \* membership events only: which access paths report a Modified differs between the equivalent
            \* routes the harness rotates through (World_L0 knows which are optional; the model has one route)
            evs |-> IF "evs" \in DOMAIN o.st[1]
                    THEN LET q == SelectSeq(o.st[1].evs, LAMBDA x : x[1] # "M") IN [j \in 1..Len(q) |-> <<q[j][1], q[j][2]>>]
                    ELSE <<>>]

\* the entity index that owns value v according to the lookups of the same event (-1: nobody / not unique)
Owner(o, v) ==
  LET c == {i \in 1..Len(o.st[1].get) : o.st[1].get[i] = v} IN
  IF Cardinality(c) = 1 THEN o.hs[CHOOSE i \in c : TRUE][1] ELSE 0 - 1

Proj(e) ==
  LET base ==
        CASE e.op = "SOp" -> <<e.op, e.cls, e.h, IF "b" \in DOMAIN e THEN e.b ELSE Present(e.res)>>
          [] e.op = "WOp" /\ e.k = "count" -> <<e.op, e.k, e.n, e.b>>
          [] e.op = "WOp" /\ e.k \in {"drain", "joinmut", "restrict"} -> <<e.op, e.k, [j \in 1..Len(e.items) |-> e.items[j][1]]>>
          [] e.op = "WOp" /\ e.k = "slice" ->
               IF e.kind = "vec" THEN <<e.op, e.k, e.kind, [j \in 1..Len(e.items) |-> e.items[j][1]]>>
               ELSE <<e.op, e.k, e.kind, [j \in 1..Len(e.vals) |-> IF e.vals[j] = <<0, 0>> THEN 0 - 2 ELSE Owner(e.obs, e.vals[j])]>>
          [] e.op = "WOp" -> <<e.op, e.k>>
          [] OTHER -> <<e.op>>
  IN IF "obs" \in DOMAIN e THEN <<base, ObsP(e.obs)>> ELSE <<base>>

\* a generic removal reports no result (see World_Drift)
Same(m, r) ==
  IF r.op = "SOp" /\ r.cls = "gremove"
  THEN m.op = "SOp" /\ m.cls = "remove" /\ m.h = r.h /\ ObsP(m.obs) = ObsP(r.obs)
  ELSE Proj(m) = Proj(r)

RECURSIVE Cmp(_, _, _, _)
Cmp(evs, j, ll, bad) ==
  IF j > Len(evs) THEN [l |-> ll, bad |-> bad]
  \* the harness skips a restricted lookup when the storage has no item to ask from
  ELSE IF evs[j].op = "SOp" /\ evs[j].cls \in {"read", "write"}
          /\ (ll > Len(Rec) \/ Rec[ll].op # "SOp" \/ Rec[ll].h # evs[j].h \/ Rec[ll].cls # evs[j].cls)
       THEN Cmp(evs, j + 1, ll, bad)
  \* ... and whole-storage operations a wrapper does not offer (slot views, parallel mutable joins)
  ELSE IF evs[j].op = "WOp" /\ evs[j].k \in {"slice", "joinmut", "restrict"} /\ (ll > Len(Rec) \/ Rec[ll].op # "WOp" \/ Rec[ll].k # evs[j].k)
       THEN Cmp(evs, j + 1, ll, bad)
  ELSE IF ll > Len(Rec) \/ Rec[ll].op \in {"Reset", "DropWorld"} THEN [l |-> ll, bad |-> bad + 1]
  ELSE IF Same(evs[j], Rec[ll]) THEN Cmp(evs, j + 1, ll + 1, bad)
  ELSE Cmp(evs, j + 1, ll + 1, bad + 1)

\* (sets of the model's operations arrive as JSON arrays)
Fix(op) == IF "sel" \in DOMAIN op THEN [op EXCEPT !.sel = {op.sel[i] : i \in 1..Len(op.sel)}]
           ELSE IF "fm" \in DOMAIN op THEN [op EXCEPT !.fm = {op.fm[i] : i \in 1..Len(op.fm)}, !.wr = {op.wr[i] : i \in 1..Len(op.wr)}]
           ELSE op

RECURSIVE Run(_, _, _, _, _)
Run(st, ops, j, ll, bad) ==
  IF j > Len(ops) THEN [l |-> ll, bad |-> bad]
  ELSE LET r == Exec(st, Fix(ops[j]))
           c == Cmp(r.evs, 1, ll, bad)
       IN Run(r.st, ops, j + 1, c.l, c.bad)

\* one step = one script: Reset line, Prealloc line, the script's events, DropWorld line
DInit == k = 1 /\ l = 1 /\ drift = <<>>
DNext ==
  /\ k <= Len(Scripts) /\ l <= Len(Rec)
  /\ LET sc == Scripts[k]
         okHead == Rec[l].op = "Reset" /\ Rec[l].cfg.tid = sc.tid
         r == Run(Init0, sc.ops, 1, l + 2, 0)
         nxt == CHOOSE x \in (l + 1)..(Len(Rec) + 1) : (x = Len(Rec) + 1 \/ Rec[x].op = "Reset") /\ \A y \in (l + 1)..(x - 1) : Rec[y].op # "Reset"
     IN /\ drift' = IF ~okHead \/ r.bad > 0 THEN Append(drift, <<sc.tid, r.bad>>) ELSE drift
        /\ l' = nxt
        /\ k' = k + 1
DSpec == DInit /\ [][DNext]_vars

Verdict == (k = Len(Scripts) + 1) => PrintT(<<"DRIFT", ToJson([scripts |-> Len(Scripts), drifted |-> Len(drift), first |-> SubSeq(drift, 1, IF Len(drift) < 5 THEN Len(drift) ELSE 5)])>>)
=============================================================================
