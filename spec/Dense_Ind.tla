------------------------------ MODULE Dense_Ind ------------------------------
(***************************************************************************)
(* DenseVecStorage (src/storage/storages.rs) behind the MaskedStorage      *)
(* mask, with an inductive invariant: the storage behaves as the map from  *)
(* present ids to their values (C04; C16 - the change set is built on it)  *)
(* for histories of any length.                                            *)
(*                                                                         *)
(*   mask        ids that hold a component (the MaskedStorage bit set)     *)
(*   n           length of the dense vectors `data` and `entity_id`        *)
(*   data[d]     value in dense slot d          (d < n)                    *)
(*   eid[d]      id owning dense slot d         (d < n)                    *)
(*   did[i]      dense slot of id i (the redirection table `data_id`;      *)
(*               meaningful only for ids in the mask - the real table      *)
(*               holds garbage / uninitialised entries elsewhere)          *)
(*   model[i]    ghost: the value the map semantics says id i holds        *)
(*                                                                         *)
(* insert (id not present) pushes; remove swap-removes and redirects the   *)
(* moved element; get / get_mut go through did.  Values are integers.      *)
(* Slots beyond n and did entries outside the mask are left untouched by   *)
(* the operations (they model stale memory), so the invariant must not     *)
(* depend on them.                                                         *)
(***************************************************************************)
EXTENDS Integers, FiniteSets

CONSTANT
  \* @type: Int;
  N        \* ids and dense slots 0..N-1

VARIABLES
  \* @type: Set(Int);
  mask,
  \* @type: Int;
  n,
  \* @type: Int -> Int;
  data,
  \* @type: Int -> Int;
  eid,
  \* @type: Int -> Int;
  did,
  \* @type: Int -> Int;
  model

vars == <<mask, n, data, eid, did, model>>
Idx == 0..(N - 1)

Init ==
  /\ mask = {} /\ n = 0
  /\ data = [d \in Idx |-> 0] /\ eid = [d \in Idx |-> 0] /\ did = [i \in Idx |-> 0]
  /\ model = [i \in Idx |-> 0]

\* Storage::insert for an id that is not present (an overwrite goes through get_mut)
Insert(i, v) ==
  /\ i \notin mask
  /\ mask' = mask \union {i}
  /\ did' = [did EXCEPT ![i] = n]
  /\ eid' = [eid EXCEPT ![n] = i]
  /\ data' = [data EXCEPT ![n] = v]
  /\ n' = n + 1
  /\ model' = [model EXCEPT ![i] = v]

\* Storage::remove / drop of a present id: swap_remove + redirect of the moved (last) element
Remove(i) ==
  /\ i \in mask
  /\ LET d == did[i]  last == eid[n - 1] IN
     /\ did' = [did EXCEPT ![last] = d]
     /\ eid' = [eid EXCEPT ![d] = eid[n - 1]]
     /\ data' = [data EXCEPT ![d] = data[n - 1]]
  /\ n' = n - 1
  /\ mask' = mask \ {i}
  /\ UNCHANGED model

\* get_mut + write
Write(i, v) ==
  /\ i \in mask
  /\ data' = [data EXCEPT ![did[i]] = v]
  /\ model' = [model EXCEPT ![i] = v]
  /\ UNCHANGED <<mask, n, eid, did>>

\* clear: the tables are emptied (stale contents remain in memory)
Clear ==
  /\ mask' = {} /\ n' = 0
  /\ UNCHANGED <<data, eid, did, model>>

Next ==
  \/ \E i \in Idx, v \in 1..3 : Insert(i, v) \/ Write(i, v)
  \/ \E i \in Idx : Remove(i)
  \/ Clear
  \/ UNCHANGED vars

Spec == Init /\ [][Next]_vars

\* ------------------------------------------------------------ properties
\* what a lookup returns for a present id, and what the dense slice shows
MapLike == \A i \in mask : did[i] \in 0..(n - 1) /\ data[did[i]] = model[i]

TypeOK ==
  /\ mask \in SUBSET Idx /\ n \in 0..N
  /\ data \in [Idx -> Int] /\ eid \in [Idx -> Idx] /\ did \in [Idx -> Idx] /\ model \in [Idx -> Int]

Inv ==
  /\ n = Cardinality(mask)
  \* the two tables are inverse to each other on the present ids / the used slots
  /\ \A i \in mask : did[i] < n /\ eid[did[i]] = i
  /\ \A d \in Idx : d < n => (eid[d] \in mask /\ did[eid[d]] = d)
  /\ MapLike

IndInv == TypeOK /\ Inv
IndInit == IndInv
=============================================================================
