------------------------------- MODULE Shapes -------------------------------
(***************************************************************************)
(* C18: what the derive macros must mean, as a function of the type        *)
(* definition (its shape) and a value.                                     *)
(*                                                                         *)
(* #[derive(ConvertSaveload)] on a type T must produce a data type of the  *)
(* same shape in which every field is replaced by that field's own         *)
(* conversion: plain serde types stay as they are (also when marked        *)
(* #[convert_save_load_skip_convert]), Entity fields become the entity's   *)
(* marker, nested derived types become their own data type, generic        *)
(* parameters convert as their instantiation; attributes forwarded with    *)
(* #[convert_save_load_attr(..)] (here: serde(rename)) apply to the data   *)
(* type's field.  ExpData gives the serialised (serde_json) form of that   *)
(* data as a tagged tree:  <<"n", 5>> number, <<"s", "x">> string,         *)
(* <<"z">> null, <<"a", seq>> array, <<"o", seq of <<key, tree>>>> object. *)
(* Converting back must give an equal value.                               *)
(*                                                                         *)
(* #[derive(Component)] selects the requested storage, appending <Self>    *)
(* when the request carries no type arguments, DenseVecStorage by default. *)
(***************************************************************************)
EXTENDS Naturals, Sequences, FiniteSets, TLC

F(p, m, d) == <<p, m, ToString(d)>>

Key(f) == IF f.ren # "" THEN f.ren ELSE f.n
\* (a forwarded serde(rename) on an enum variant renames the variant's tag)
VKey(vr) == IF "ren" \in DOMAIN vr /\ vr.ren # "" THEN vr.ren ELSE vr.n

RECURSIVE ExpData(_, _, _), ExpField(_, _, _)
ExpField(t, v, mks) ==
  CASE t[1] = "entity" -> mks[v[2] + 1]
    [] t[1] = "nested" -> ExpData(t[2], v[2], mks)
    [] t[1] = "gen"    -> ExpField(t[2], v, mks)
    [] OTHER           -> v                      \* plain serde types serialise as themselves

ExpFields(fs, vs, mks) == [i \in 1..Len(fs) |-> ExpField(fs[i].t, vs[i], mks)]

ExpData(T, V, mks) ==
  CASE T.k = "named" -> <<"o", [i \in 1..Len(T.fields) |-> <<Key(T.fields[i]), ExpField(T.fields[i].t, V[i], mks)>>]>>
    [] T.k = "tuple" -> IF Len(T.fields) = 1 THEN ExpField(T.fields[1].t, V[1], mks)
                        ELSE <<"a", ExpFields(T.fields, V, mks)>>
    [] T.k = "enum"  ->
         LET vr == T.variants[V.var] IN
         CASE vr.k = "unit"  -> <<"s", VKey(vr)>>
           [] vr.k = "tuple" -> <<"o", << <<VKey(vr), IF Len(vr.fields) = 1 THEN ExpField(vr.fields[1].t, V.vals[1], mks)
                                                   ELSE <<"a", ExpFields(vr.fields, V.vals, mks)>> >> >> >>
           [] vr.k = "named" -> <<"o", << <<VKey(vr), <<"o", [i \in 1..Len(vr.fields) |-> <<Key(vr.fields[i]), ExpField(vr.fields[i].t, V.vals[i], mks)>>]>> >> >> >>

\* equality of tagged trees; object members are unordered
RECURSIVE JEq(_, _)
JEq(x, y) ==
  IF x[1] # y[1] THEN FALSE
  ELSE CASE x[1] = "z" -> TRUE
         [] x[1] = "a" -> Len(x[2]) = Len(y[2]) /\ \A i \in 1..Len(x[2]) : JEq(x[2][i], y[2][i])
         [] x[1] = "o" -> /\ Len(x[2]) = Len(y[2])
                          /\ \A i \in 1..Len(x[2]) : \E j \in 1..Len(y[2]) : x[2][i][1] = y[2][j][1] /\ JEq(x[2][i][2], y[2][j][2])
                          /\ \A j \in 1..Len(y[2]) : \E i \in 1..Len(x[2]) : x[2][i][1] = y[2][j][1]
         [] OTHER      -> x[2] = y[2]

\* as printed by type_name with module paths stripped; a type argument equal to the
\* declared default (DenseVecStorage for the inner storage of the wrappers) is elided
StorageOf(spec, name) ==
  LET base == IF spec.base = "" THEN "DenseVecStorage" ELSE spec.base IN
  IF spec.inner # "" /\ spec.inner # "DenseVecStorage"
  THEN base \o "<" \o name \o ", " \o spec.inner \o "<" \o name \o ">>"
  ELSE base \o "<" \o name \o ">"

Check(ev) ==
  IF ev.op = "Comp"
  THEN IF ev.storage # StorageOf(ev.spec, ev.name)
       THEN {F("C18", "derived Component selects the wrong storage (got, expected)", <<ev.storage, StorageOf(ev.spec, ev.name)>>)} ELSE {}
  ELSE IF ev.error # "" THEN {F("C18", "generated program failed for this shape", ev.error)}
  ELSE LET exp == ExpData(ev.T, ev.V, ev.mks) IN
       (IF ~JEq(ev.data, exp) THEN {F("C18", "derived conversion is not field-wise (got, expected)", <<ev.data, exp>>)} ELSE {})
       \cup (IF ~ev.rt THEN {F("C18", "conversion does not round-trip to an equal value", ev.V)} ELSE {})
=============================================================================
