SPECIFICATION Spec
CONSTANTS
  P = {0, 63}
  Depth = 3
INVARIANT IterCorrect
INVARIANT Partition
CHECK_DEADLOCK FALSE
