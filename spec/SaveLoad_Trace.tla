--------------------------- MODULE SaveLoad_Trace ---------------------------
EXTENDS SaveLoad_L0, Json, IOUtils
Rec == ndJsonDeserialize(IOEnv.TRACE)
VARIABLES l, st, viol
vars == <<l, st, viol>>
TInit == l = 1 /\ st = S0(0, 0 - 1) /\ viol = {}
TNext ==
  /\ l <= Len(Rec)
  /\ LET r == Step(st, Rec[l]) IN
       /\ st' = r.S
       /\ viol' = viol \cup {[line |-> l, tid |-> r.S.tid, p |-> x[1], m |-> x[2], d |-> x[3]] : x \in r.f}
  /\ l' = l + 1
TSpec == TInit /\ [][TNext]_vars
Verdict == (l = Len(Rec) + 1) => PrintT(<<"VERDICT", ToJson([n |-> Len(Rec), viol |-> viol])>>)
Accepted == TLCGet("stats").diameter = Len(Rec) + 1
=============================================================================
