------------------------------ MODULE Dispatch ------------------------------
(***************************************************************************)
(* Parallel dispatch of systems over component storages, the entities      *)
(* resource and lazy updates (C11).                                        *)
(*                                                                         *)
(* Part 1 (model): a dispatcher knows only what each system *declares*     *)
(* (reads / writes of its SystemData); the world enforces what a system    *)
(* actually *borrows* when it fetches.  Enter(s) is guarded by the         *)
(* declarations of the running systems and by the dependencies; the        *)
(* invariants are stated on the actual borrows.  With declared = actual    *)
(* (the table below is what src/storage/data.rs and shred declare) TLC     *)
(* shows that no schedule overlaps a writer with another user of the same  *)
(* resource and that no fetch can fail; if a declaration under-reports,    *)
(* TLC produces the two-system counterexample.                             *)
(*                                                                         *)
(* Part 2 (Check): a function of one logged real dispatch, or of the       *)
(* declared-vs-borrowed table extracted from the real code.                *)
(***************************************************************************)
EXTENDS Naturals, Integers, Sequences, FiniteSets, TLC

F(p, m, d) == <<p, m, ToString(d)>>
SeqToSet(q) == {q[i] : i \in 1..Len(q)}

\* ------------------------------------------------------------------ model
CONSTANTS Graphs      \* set of system graphs: records [declR, declW, actR, actW, deps], each a
                      \* function from the systems of that graph to sets (resources / systems)

VARIABLES gr, running, done
mvars == <<gr, running, done>>

Sys == DOMAIN gr.declR

Conflict(r1, w1, r2, w2) == (w1 \cap (r2 \cup w2)) # {} \/ (w2 \cap r1) # {}

MInit == gr \in Graphs /\ running = {} /\ done = {}
Enter(s) == /\ s \notin running \cup done
            /\ gr.deps[s] \subseteq done
            /\ \A t \in running : ~Conflict(gr.declR[s], gr.declW[s], gr.declR[t], gr.declW[t])
            /\ running' = running \cup {s} /\ UNCHANGED <<done, gr>>
Exit(s) == s \in running /\ running' = running \ {s} /\ done' = done \cup {s} /\ UNCHANGED gr
MNext == \E s \in Sys : Enter(s) \/ Exit(s)
MSpec == MInit /\ [][MNext]_mvars /\ WF_mvars(MNext)

\* a fetch fails (borrow panic) exactly when actual borrows conflict; so both are one invariant
NoWriterOverlap == \A s, t \in running : s # t => ~Conflict(gr.actR[s], gr.actW[s], gr.actR[t], gr.actW[t])
AllRun == <>(done = Sys)

\* ------------------------------------------------------------------ traces
\* ev.op = "Table": ev.rows[k] = [name, decl_r, decl_w, shared, excl] (sequences of resource names)
\* ev.op = "Dispatch": ev.systems[k] = [name, reads, writes, deps (1-based positions), barrier_before],
\*                     ev.log = <<[sys, enter, exit]...>> one per run of a system, with global
\*                     sequence numbers taken inside the borrow; ev.rounds; ev.panic; ev.conflicts
CheckTable(ev) ==
  UNION {
    LET r == ev.rows[k] IN
      (IF SeqToSet(r.decl_r) # SeqToSet(r.shared) THEN {F("C11", "declared reads differ from what fetch borrows shared (handle, declared, borrowed)", <<r.name, r.decl_r, r.shared>>)} ELSE {})
      \cup (IF SeqToSet(r.decl_w) # SeqToSet(r.excl) THEN {F("C11", "declared writes differ from what fetch borrows exclusively (handle, declared, borrowed)", <<r.name, r.decl_w, r.excl>>)} ELSE {})
      \* fetching must not need, even for a moment, anything beyond the declaration: it succeeds while every
      \* undeclared resource is held exclusively and every resource declared as read is held shared by others
      \cup (IF "hostile" \in DOMAIN r /\ r.hostile # <<>>
            THEN {F("C11", "fetching the handle needs more than it declares (handle, resources whose foreign borrow made the fetch fail)", <<r.name, r.hostile>>)} ELSE {})
    : k \in 1..Len(ev.rows) }

CheckDispatch(ev) ==
  LET n == Len(ev.systems)
      L == ev.log
      runsOf(i) == {k \in 1..Len(L) : L[k].sys = i}
      overlap(a, b) == L[a].enter < L[b].exit /\ L[b].enter < L[a].exit
      R(i) == SeqToSet(ev.systems[i].reads)
      W(i) == SeqToSet(ev.systems[i].writes)
      conflictPairs == {p \in (1..Len(L)) \X (1..Len(L)) :
                          p[1] < p[2] /\ overlap(p[1], p[2])
                          /\ Conflict(R(L[p[1]].sys), W(L[p[1]].sys), R(L[p[2]].sys), W(L[p[2]].sys))}
      \* round of a run: runs are logged per dispatch round
      depBad == {k \in 1..Len(L) : \E d \in SeqToSet(ev.systems[L[k].sys].deps) :
                    ~\E j \in 1..Len(L) : L[j].sys = d /\ L[j].round = L[k].round /\ L[j].exit < L[k].enter}
      barBad == {p \in (1..Len(L)) \X (1..Len(L)) :
                    L[p[1]].round = L[p[2]].round /\ ev.systems[L[p[1]].sys].stage < ev.systems[L[p[2]].sys].stage
                    /\ ~(L[p[1]].exit < L[p[2]].enter)}
  IN   (IF ev.panic # "" THEN {F("C11", "dispatch failed (borrow conflict / panic)", ev.panic)} ELSE {})
  \cup (IF ev.panic = "" /\ \E i \in 1..n : Cardinality(runsOf(i)) # ev.rounds
        THEN {F("C11", "a system did not run exactly once per dispatch", [i \in 1..n |-> Cardinality(runsOf(i))])} ELSE {})
  \cup {F("C11", "a writer overlapped another user of the same storage (systems)", <<ev.systems[L[p[1]].sys].name, ev.systems[L[p[2]].sys].name>>) : p \in conflictPairs}
  \cup (IF ev.conflicts # <<>> THEN {F("C11", "overlap observed by the per-storage reader/writer counters", ev.conflicts)} ELSE {})
  \cup {F("C11", "a system started before a dependency finished", ev.systems[L[k].sys].name) : k \in depBad}
  \cup {F("C11", "a barrier was not respected", <<ev.systems[L[p[1]].sys].name, ev.systems[L[p[2]].sys].name>>) : p \in barBad}
  \* the systems that share the entities resource as readers create entities through it while they overlap:
  \* no two creations of the run return the same handle, and within a round (the deletions are deferred to
  \* the maintain that follows it) no two of the created entities share an index
  \cup (LET M == IF "made" \in DOMAIN ev THEN ev.made ELSE <<>>
            dup == {p \in (1..Len(M)) \X (1..Len(M)) : p[1] < p[2] /\ (M[p[1]].h = M[p[2]].h \/ (M[p[1]].round = M[p[2]].round /\ M[p[1]].h[1] = M[p[2]].h[1]))}
        IN {F("C11", "systems sharing the entities resource were handed the same entity / index (system, round, handle)",
              <<<<M[p[1]].sys, M[p[1]].round, M[p[1]].h>>, <<M[p[2]].sys, M[p[2]].round, M[p[2]].h>>>>) : p \in dup})

Check(ev) == IF ev.op = "Table" THEN CheckTable(ev) ELSE CheckDispatch(ev)
=============================================================================
