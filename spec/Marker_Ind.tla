------------------------------ MODULE Marker_Ind ------------------------------
(***************************************************************************)
(* Marker ids stay unique (C15) - the design of SimpleMarkerAllocator and  *)
(* MarkerAllocator::retrieve_entity (src/saveload/marker.rs) reduced to    *)
(* what uniqueness depends on, with an inductive invariant.                *)
(*                                                                         *)
(* Entities are abstract identities (index AND generation, never reused):  *)
(*   used   identities handed out so far        live   the ones alive      *)
(*   mk[e]  marker id carried by e (-1: none; deletion purges it)          *)
(*   ctr    the allocator's `index`                                        *)
(*   map[m] the allocator's `mapping` (-1: no entry); rebuilt only by the  *)
(*          allocator's maintain, so entries go stale when entities die    *)
(*                                                                         *)
(* Steps: create, delete, mark (existing marker wins, else id := ctr++),   *)
(* allocator maintain, and the per-record step of deserialisation          *)
(* retrieve_entity(m): if map[m] is an entity that still carries a marker, *)
(* that marker is overwritten with m and the entity is reused, otherwise a *)
(* new entity is created and allocate(e, Some(m)) bumps ctr past m.        *)
(*                                                                         *)
(* IndInv is inductive (Apalache, tools: see lib/saveload.py `inductive`)  *)
(* and implies Unique.  The crux is MapFaithful: every live marked entity  *)
(* is found under its own id - which is why retrieve_entity may trust a    *)
(* mapping entry exactly when the mapped entity still carries a marker.    *)
(* Seeded defects C14-r5m2 / C15-m2 / C15-r2m2 / C15-r5m2 each break one   *)
(* conjunct of it.                                                         *)
(***************************************************************************)
EXTENDS Integers, FiniteSets

CONSTANTS
  \* @type: Int;
  NE,      \* entity identities 0..NE-1
  \* @type: Int;
  NM       \* marker ids 0..NM-1

VARIABLES
  \* @type: Set(Int);
  used,
  \* @type: Set(Int);
  live,
  \* @type: Int -> Int;
  mk,
  \* @type: Int;
  ctr,
  \* @type: Int -> Int;
  map

vars == <<used, live, mk, ctr, map>>

Ent == 0..(NE - 1)
Mid == 0..(NM - 1)

Init ==
  /\ used = {} /\ live = {}
  /\ mk = [e \in Ent |-> 0 - 1]
  /\ ctr = 0
  /\ map = [m \in Mid |-> 0 - 1]

Create(e) ==
  /\ e \notin used
  /\ used' = used \union {e} /\ live' = live \union {e}
  /\ UNCHANGED <<mk, ctr, map>>

\* deletion (immediate, or deferred and applied by maintain): the marker component is purged
Delete(e) ==
  /\ e \in live
  /\ live' = live \ {e}
  /\ mk' = [mk EXCEPT ![e] = 0 - 1]
  /\ UNCHANGED <<used, ctr, map>>

\* MarkerAllocator::mark: storage.entry(e)?.or_insert_with(|| allocate(e, None))
Mark(e) ==
  /\ e \in live
  /\ IF mk[e] >= 0 THEN UNCHANGED <<mk, ctr, map>>
     ELSE /\ ctr < NM
          /\ mk' = [mk EXCEPT ![e] = ctr]
          /\ map' = [map EXCEPT ![ctr] = e]
          /\ ctr' = ctr + 1
  /\ UNCHANGED <<used, live>>

\* SimpleMarkerAllocator::maintain
AMaintain ==
  /\ map' = [m \in Mid |-> IF \E e \in live : mk[e] = m THEN CHOOSE e \in live : mk[e] = m ELSE 0 - 1]
  /\ UNCHANGED <<used, live, mk, ctr>>

\* retrieve_entity(m), the entity-resolving step of deserialising one record (and of every
\* reference inside a record); e is the identity a creation would hand out
Retrieve(m, e) ==
  IF map[m] >= 0 /\ map[m] \in live /\ mk[map[m]] >= 0
  THEN /\ mk' = [mk EXCEPT ![map[m]] = m]
       /\ UNCHANGED <<used, live, ctr, map>>
  ELSE /\ e \notin used
       /\ used' = used \union {e} /\ live' = live \union {e}
       /\ mk' = [mk EXCEPT ![e] = m]
       /\ map' = [map EXCEPT ![m] = e]
       /\ ctr' = IF m >= ctr THEN m + 1 ELSE ctr

Next ==
  \/ \E e \in Ent : Create(e) \/ Delete(e) \/ Mark(e)
  \/ AMaintain
  \/ \E m \in Mid, e \in Ent : Retrieve(m, e)
  \/ UNCHANGED vars

Spec == Init /\ [][Next]_vars

\* ------------------------------------------------------------ properties
Marked == {e \in live : mk[e] >= 0}
Unique == \A x \in Marked : \A y \in Marked : x # y => mk[x] # mk[y]

TypeOK ==
  /\ used \in SUBSET Ent /\ live \in SUBSET Ent
  /\ mk \in [Ent -> (0 - 1)..(NM - 1)]
  /\ map \in [Mid -> (0 - 1)..(NE - 1)]
  /\ ctr \in 0..NM

Inv ==
  /\ live \subseteq used
  /\ \A e \in Ent : e \notin live => mk[e] = 0 - 1
  \* ids in use lie below the counter; so does every mapping entry
  /\ \A e \in Marked : mk[e] < ctr
  /\ \A m \in Mid : map[m] >= 0 => (m < ctr /\ map[m] \in used)
  \* MapFaithful: a live marked entity is found under its own id
  /\ \A e \in Marked : map[mk[e]] = e
  /\ Unique

IndInv == TypeOK /\ Inv
IndInit == IndInv
=============================================================================
