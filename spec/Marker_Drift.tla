----------------------------- MODULE Marker_Drift -----------------------------
(***************************************************************************)
(* Conformance of Marker_L1 to the code (impl -> L1), informational.  The   *)
(* histories TLC emitted from Marker_MC are replayed on the real world;     *)
(* here TLC re-executes each of them on Marker_L1 and compares, event by    *)
(* event, what the model predicts with what the code did: the complete      *)
(* world content after every step (handles with generation, marker ids,     *)
(* components, references), marking results and the serialised records.     *)
(* A mismatch is DRIFT (the model no longer describes this code), never a   *)
(* property violation.                                                      *)
(***************************************************************************)
EXTENDS Marker_L1, Json, IOUtils

Scripts == ndJsonDeserialize(IOEnv.SCRIPTS)    \* [tid, ops] in the order the harness ran them
Rec == ndJsonDeserialize(IOEnv.TRACE)

VARIABLES k, l, drift
vars == <<k, l, drift>>

Proj(e) ==
  LET base == CASE e.op = "Create" -> <<e.op, e.h>>
                [] e.op = "Mark" -> <<e.op, e.h, e.res, e.new>>
                [] e.op = "Save" -> <<e.op, e.data>>
                [] e.op = "Retrieve" -> <<e.op, e.m, e.res>>
                [] OTHER -> <<e.op>>
  IN <<base, e.obs>>

RECURSIVE Run(_, _, _, _, _)
Run(st, ops, j, ll, bad) ==
  IF j > Len(ops) THEN [l |-> ll, bad |-> bad]
  ELSE IF ll > Len(Rec) \/ Rec[ll].op = "Reset" THEN [l |-> ll, bad |-> bad + 1]
  ELSE LET r == Exec(st, ops[j])
       IN Run(r.st, ops, j + 1, ll + 1, IF Proj(r.ev) = Proj(Rec[ll]) THEN bad ELSE bad + 1)

DInit == k = 1 /\ l = 1 /\ drift = <<>>
DNext ==
  /\ k <= Len(Scripts) /\ l <= Len(Rec)
  /\ LET sc == Scripts[k]
         okHead == Rec[l].op = "Reset" /\ Rec[l].tid = sc.tid
         r == Run(Init0, sc.ops, 1, l + 1, 0)
         nxt == CHOOSE x \in (l + 1)..(Len(Rec) + 1) : (x = Len(Rec) + 1 \/ Rec[x].op = "Reset") /\ \A y \in (l + 1)..(x - 1) : Rec[y].op # "Reset"
     IN /\ drift' = IF ~okHead \/ r.bad > 0 THEN Append(drift, <<sc.tid, r.bad>>) ELSE drift
        /\ l' = nxt
        /\ k' = k + 1
DSpec == DInit /\ [][DNext]_vars

Verdict == (k = Len(Scripts) + 1) => PrintT(<<"DRIFT", ToJson([scripts |-> Len(Scripts), drifted |-> Len(drift), first |-> SubSeq(drift, 1, IF Len(drift) < 5 THEN Len(drift) ELSE 5)])>>)
=============================================================================
