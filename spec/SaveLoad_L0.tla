---------------------------- MODULE SaveLoad_L0 ----------------------------
(***************************************************************************)
(* Property-level specification of save / load (C14, C15; creation during  *)
(* deserialisation for C01).  Several worlds; an entity's content is       *)
(*    <<m, a, b, r>>   m = <<>> | <<marker id>>                            *)
(*                     a, b = <<>> | <<value>>       (two plain components)*)
(*                     r = <<>> | <<sequence of handles>>  (a component    *)
(*                         holding references to other entities)           *)
(* Saved data is a sequence of records [m, a, b, r] where r holds marker   *)
(* ids instead of handles.                                                 *)
(*                                                                         *)
(* Step(S, ev) predicts the complete content of the affected world after   *)
(* every operation and compares it with the observed one (ev.obs = one     *)
(* <<handle, m, a, b, r>> per live entity).  Handles of entities created   *)
(* by a load are taken from the observation; everything else is predicted: *)
(*  - save writes one record per marked live entity, ascending index, with *)
(*    its components and its references turned into markers (the recursive *)
(*    variant first marks everything reachable);                           *)
(*  - load processes the records in order: the live entity carrying the    *)
(*    record's marker is updated in place, otherwise exactly one new       *)
(*    entity is created for that marker; a component the record lacks is   *)
(*    removed; a reference to marker x becomes a reference to the entity   *)
(*    carrying x (created empty on first mention);                         *)
(*  - no two live entities ever carry the same marker id; marking a marked *)
(*    entity returns its marker.                                           *)
(***************************************************************************)
EXTENDS Naturals, Integers, Sequences, FiniteSets, TLC

F(p, m, d) == <<p, m, ToString(d)>>
SeqToSet(q) == {q[i] : i \in 1..Len(q)}
None == <<>>

\* stale: marker id |-> the entity it was taken from by hand (Unmark) - the allocator's mapping still names it
S0(n, tid) == [ws |-> [k \in 1..n |-> [ents |-> <<>>, doomed |-> {}, issued |-> {}, stale |-> <<>>]], tid |-> tid]

FnSet(f, k, v) == [x \in DOMAIN f \cup {k} |-> IF x = k THEN v ELSE f[x]]
FnDel(f, ks)   == [x \in DOMAIN f \ ks |-> f[x]]

SortedById(T) ==
  LET ids == {h[1] : h \in T}
      RECURSIVE B(_, _)
      B(rest, acc) == IF rest = {} THEN acc
                      ELSE LET m == CHOOSE x \in rest : \A y \in rest : x <= y
                           IN B(rest \ {m}, acc \o <<CHOOSE h \in T : h[1] = m>>)
  IN B(ids, <<>>)

ObsMap(obs) == [h \in {obs[k][1] : k \in 1..Len(obs)} |->
                  LET k == CHOOSE j \in 1..Len(obs) : obs[j][1] = h IN <<obs[k][2], obs[k][3], obs[k][4], obs[k][5]>>]

Carrier(E, m) == {h \in DOMAIN E : E[h][1] = <<m>>}
Marked(E) == {h \in DOMAIN E : E[h][1] # None}
MarkerOf(E, h) == E[h][1][1]

\* references -> markers; <<-1>> marks a target without marker (the conversion is then unspecified)
RefMarkers(E, r) == IF r = None THEN None
                    ELSE << [k \in 1..Len(r[1]) |-> IF r[1][k] \in DOMAIN E /\ E[r[1][k]][1] # None THEN MarkerOf(E, r[1][k]) ELSE 0 - 1] >>
Convertible(E, h) == IF E[h][4] = None THEN TRUE ELSE \A k \in 1..Len(E[h][4][1]) : E[h][4][1][k] \in DOMAIN E /\ E[E[h][4][1][k]][1] # None

RecordOf(E, h) == [m |-> MarkerOf(E, h), a |-> E[h][2], b |-> E[h][3], r |-> RefMarkers(E, E[h][4])]

\* live entities reachable from the marked ones through references
RECURSIVE Closure(_, _)
Closure(E, T) ==
  LET nxt == T \cup {t \in DOMAIN E : \E h \in T : E[h][4] # None /\ t \in SeqToSet(E[h][4][1])}
  IN IF nxt = T THEN T ELSE Closure(E, nxt)

UniqueMarkers(E) == \A g, h \in DOMAIN E : (g # h /\ E[g][1] # None) => E[g][1] # E[h][1]

\* ------------------------------------------------------------------- load
MentionedMarkers(recs) ==
  {recs[k].m : k \in 1..Len(recs)} \cup
  UNION {IF recs[k].r = None THEN {} ELSE SeqToSet(recs[k].r[1]) : k \in 1..Len(recs)}

RECURSIVE ApplyRecs(_, _, _, _)
ApplyRecs(E, recs, k, NewOf) ==
  IF k > Len(recs) THEN E
  ELSE LET rec == recs[k]
           ensure(EE, m) == IF Carrier(EE, m) # {} THEN EE ELSE FnSet(EE, NewOf[m], <<<<m>>, None, None, None>>)
           tgt(EE, m) == IF Carrier(EE, m) # {} THEN CHOOSE h \in Carrier(EE, m) : TRUE ELSE NewOf[m]
           E1 == ensure(E, rec.m)
           t == tgt(E1, rec.m)
           RECURSIVE Ens(_, _)
           Ens(EE, j) == IF rec.r = None \/ j > Len(rec.r[1]) THEN EE ELSE Ens(ensure(EE, rec.r[1][j]), j + 1)
           E2 == Ens(E1, 1)
           refs == IF rec.r = None THEN None ELSE << [j \in 1..Len(rec.r[1]) |-> tgt(E2, rec.r[1][j])] >>
           E3 == [E2 EXCEPT ![t] = <<E2[t][1], rec.a, rec.b, refs>>]
       IN ApplyRecs(E3, recs, k + 1, NewOf)

\* ------------------------------------------------------------------- step
\* returns [S, f]
Step(S, ev) ==
  IF ev.op = "Reset" THEN [S |-> S0(ev.worlds, ev.tid), f |-> {}]
  ELSE
  LET w == ev.w
      W == S.ws[w]
      E == W.ents
      obs == ObsMap(ev.obs)
      cmp(Eexp, prop, what) ==
        (IF obs # Eexp THEN {F(prop, what \o " - world content differs (got, expected)", <<obs, Eexp>>)} ELSE {})
        \cup (IF ~UniqueMarkers(obs) THEN {F("C15", "two live entities carry the same marker id", obs)} ELSE {})
      put(E2, W2) == [S EXCEPT !.ws[w] = [W2 EXCEPT !.ents = E2]]
      panic == ev.panic # ""
      \* A marker component removed by hand leaves the allocator's mapping entry behind (only the allocator's
      \* maintain rebuilds the mapping).  While the entity it names is alive and carries a marker again and no
      \* live entity carries the id, what a retrieval of that id does is left open (the library reuses that entity).
      Risky(m) == m \in DOMAIN W.stale /\ W.stale[m] \in DOMAIN E /\ E[W.stale[m]][1] # None /\ Carrier(E, m) = {}
      \* ... and the id such an entity loses when it is reused is left behind in the mapping in turn
      Lost == {h \in DOMAIN E \cap DOMAIN obs : E[h][1] # None /\ obs[h][1] # E[h][1]}
      StaleAfter == [m \in DOMAIN W.stale \cup {E[h][1][1] : h \in Lost} |->
                       IF \E h \in Lost : E[h][1][1] = m THEN CHOOSE h \in Lost : E[h][1][1] = m ELSE W.stale[m]]
  IN
  CASE ev.op = "Panic" ->       \* an operation that must succeed panicked inside the library
         [S |-> S, f |-> {F(p, "operation panicked", <<ev.in, ev.msg>>) : p \in (IF ev.in \in {"create", "ecreate"} THEN {"C01", "C15"} ELSE {"C14", "C15"})}]
    [] ev.op = "Create" ->
         LET E2 == FnSet(E, ev.h, <<None, ev.a, ev.b, None>>) IN
         [S |-> put(E2, [W EXCEPT !.issued = @ \cup {ev.h}]),
          f |-> cmp(E2, "C15", "create") \cup (IF ev.h \in W.issued THEN {F("C01", "handle not fresh", ev.h)} ELSE {})]
    [] ev.op = "Set" ->      \* set / remove one component (ev.c in {"a","b","r"}) of a live entity
         LET live == ev.h \in DOMAIN E
             old == IF live THEN E[ev.h] ELSE <<None, None, None, None>>
             new == CASE ev.c = "a" -> <<old[1], ev.v, old[3], old[4]>>
                      [] ev.c = "b" -> <<old[1], old[2], ev.v, old[4]>>
                      [] ev.c = "r" -> <<old[1], old[2], old[3], ev.v>>
             E2 == IF live THEN [E EXCEPT ![ev.h] = new] ELSE E
         IN [S |-> put(E2, W), f |-> cmp(E2, "C15", "set component")]
    [] ev.op = "Mark" ->
         LET live == ev.h \in DOMAIN E
             had == live /\ E[ev.h][1] # None
             E2 == IF live /\ ~had /\ ev.res # None THEN [E EXCEPT ![ev.h] = <<<<ev.res[1]>>, @[2], @[3], @[4]>>] ELSE E
         IN [S |-> put(E2, W),
             f |-> (IF ~live /\ ev.res # None THEN {F("C15", "marking a dead entity returned a marker", ev.h)} ELSE {})
              \cup (IF live /\ ev.res = None THEN {F("C15", "marking a live entity returned nothing", ev.h)} ELSE {})
              \cup (IF had /\ ev.res # None /\ (<<ev.res[1]>> # E[ev.h][1] \/ ev.new)
                    THEN {F("C15", "marking an already marked entity did not return its existing marker", <<ev.h, E[ev.h][1], ev.res>>)} ELSE {})
              \cup (IF live /\ ~had /\ ev.res # None /\ (~ev.new \/ Carrier(E, ev.res[1]) # {})
                    THEN {F("C15", "a fresh marker is not new / collides with a live entity's marker", <<ev.h, ev.res>>)} ELSE {})
              \cup cmp(E2, "C15", "mark")]
    [] ev.op = "LazyMarked" ->   \* maintain applying a lazy builder's queue: component a, then marked(); then the deferred deletions
         LET live == ev.h \in DOMAIN E
             E1 == IF live /\ ev.a # None THEN [E EXCEPT ![ev.h] = <<@[1], ev.a, @[3], @[4]>>] ELSE E
             had == live /\ E[ev.h][1] # None
             E2 == IF live /\ ~had /\ ev.res # None THEN [E1 EXCEPT ![ev.h] = <<<<ev.res[1]>>, @[2], @[3], @[4]>>] ELSE E1
             E3 == FnDel(E2, W.doomed)
         IN [S |-> put(E3, [W EXCEPT !.doomed = {}]),
             \* (marking through a lazy builder is deferred work applied by maintain: charged to C09 as well)
             f |-> (IF live /\ ev.res = None THEN {F(p, "a lazily built marked entity carries no marker after maintain", ev.h) : p \in {"C15", "C09"}} ELSE {})
              \cup (IF had /\ ev.res # E[ev.h][1]
                    THEN {F(p, "lazy marking of an already marked entity did not keep its existing marker", <<ev.h, E[ev.h][1], ev.res>>) : p \in {"C15", "C09"}} ELSE {})
              \cup (IF live /\ ~had /\ ev.res # None /\ Carrier(E, ev.res[1]) # {}
                    THEN {F("C15", "a fresh marker collides with a live entity's marker", <<ev.h, ev.res>>)} ELSE {})
              \cup cmp(E3, "C15", "maintain applying a lazy marked builder")]
    [] ev.op = "Delete" ->
         LET E2 == FnDel(E, {ev.h}) IN
         [S |-> put(E2, [W EXCEPT !.doomed = @ \ {ev.h}]), f |-> cmp(E2, "C15", "delete")]
    [] ev.op = "EDelete" ->
         [S |-> put(E, [W EXCEPT !.doomed = IF ev.h \in DOMAIN E THEN @ \cup {ev.h} ELSE @]), f |-> cmp(E, "C15", "deferred delete")]
    [] ev.op = "Maintain" ->
         LET E2 == FnDel(E, W.doomed) IN
         [S |-> put(E2, [W EXCEPT !.doomed = {}]), f |-> cmp(E2, "C15", "maintain")]
    [] ev.op = "AMaintain" -> [S |-> put(E, [W EXCEPT !.stale = <<>>]), f |-> cmp(E, "C15", "allocator maintain")]
    [] ev.op = "AClone" ->    \* the allocator replaced by a clone of itself: nothing changes, now or later
         [S |-> S, f |-> cmp(E, "C15", "allocator cloned")]
    [] ev.op = "Unmark" ->    \* the marker component is removed by hand (Storage::remove)
         LET live == ev.h \in DOMAIN E
             had == live /\ E[ev.h][1] # None
             E2 == IF had THEN [E EXCEPT ![ev.h] = <<None, @[2], @[3], @[4]>>] ELSE E
         IN [S |-> put(E2, [W EXCEPT !.stale = IF had THEN FnSet(@, E[ev.h][1][1], ev.h) ELSE @]),
             f |-> cmp(E2, "C15", "marker removed by hand")]
    [] ev.op = "Retrieve" ->   \* MarkerAllocator::retrieve_entity called directly (the creation path of deserialisation)
         LET cs == Carrier(E, ev.m)
             E2 == IF cs # {} THEN E ELSE FnSet(E, ev.res, <<<<ev.m>>, None, None, None>>)
         IN IF Risky(ev.m) THEN [S |-> put(obs, [W EXCEPT !.issued = @ \cup {ev.res}, !.stale = StaleAfter]), f |-> {}] ELSE
            [S |-> put(E2, [W EXCEPT !.issued = @ \cup {ev.res}]),
             f |-> (IF cs # {} /\ ev.res \notin cs
                    THEN {F("C15", "a live entity carries the marker, yet retrieval returned another entity (returned, carriers)", <<ev.res, cs>>)} ELSE {})
              \cup (IF cs = {} /\ ev.res \in W.issued
                    THEN {F(p, "no live entity carries the marker, yet retrieval returned a handle that had been returned before instead of a new entity", <<ev.m, ev.res>>)
                          : p \in {"C01", "C14"}} ELSE {})
              \cup cmp(E2, "C15", "retrieve")]
    [] ev.op = "Save" ->
         LET marked == Marked(E)
             order == SortedById(marked)
             ok == \A h \in marked : Convertible(E, h)
             want == [k \in 1..Len(order) |-> RecordOf(E, order[k])]
             dupM == \E i, j \in 1..Len(ev.data) : i # j /\ ev.data[i].m = ev.data[j].m
             dupF == IF dupM THEN {F("C14", "serialised data holds the same marker twice: a load cannot produce one entity per source entity", ev.data),
                                   F("C15", "serialised data holds the same marker twice", ev.data)} ELSE {}
             \* the serialisation returned an error / the script's reference conversion reports a reference to an
             \* entity without marker as an error (instead of panicking like the library's own Entity conversion)
             errd == "err" \in DOMAIN ev /\ ev.err
             fall == "fallible" \in DOMAIN ev /\ ev.fallible
         IN IF ~ev.rec
            THEN [S |-> S,
                  f |-> dupF \cup (IF ok /\ (panic \/ errd) THEN {F("C14", "serialisation failed", ev.panic)} ELSE {})
                   \cup (IF ~ok /\ fall /\ ~errd
                         THEN {F("C14", "the conversion of a marked entity's component fails, yet the serialisation did not report an error (data returned)", ev.data)} ELSE {})
                   \cup (IF ok /\ ~panic /\ ~errd /\ ev.data # want THEN {F("C14", "serialised data differs from the marked entities (got, expected)", <<ev.data, want>>)} ELSE {})
                   \cup cmp(E, "C14", "save must not change the world")]
            ELSE \* recursive: everything reachable gets marked (marker ids as observed), then is written
                 LET cl == Closure(E, marked)
                     E2 == [h \in DOMAIN E |-> IF h \in cl /\ E[h][1] = None /\ h \in DOMAIN obs THEN <<obs[h][1], E[h][2], E[h][3], E[h][4]>> ELSE E[h]]
                     wantSet == {RecordOf(E2, h) : h \in cl}
                     firstN == [k \in 1..Len(order) |-> RecordOf(E2, order[k])]
                     bad == \/ SeqToSet(ev.data) # wantSet \/ Len(ev.data) # Cardinality(cl)
                            \/ SubSeq(ev.data, 1, Len(order)) # firstN
                     \* a reference to a dead entity cannot be turned into a marker: unspecified
                     okRec == \A h \in cl : E[h][4] = None \/ SeqToSet(E[h][4][1]) \subseteq DOMAIN E
                 IN IF ~okRec THEN [S |-> put(obs, W), f |-> {}] ELSE
                    [S |-> put(E2, W),
                     f |-> dupF \cup (IF panic THEN {F("C14", "recursive serialisation failed", ev.panic)} ELSE {})
                      \cup (IF ~panic /\ (\E h \in cl : E2[h][1] = None) THEN {F("C14", "recursive serialisation left a reachable entity unmarked", cl)} ELSE {})
                      \cup (IF ~panic /\ (\A h \in cl : E2[h][1] # None) /\ bad THEN {F("C14", "recursively serialised data differs (got, expected set)", <<ev.data, wantSet>>)} ELSE {})
                      \cup cmp(E2, "C14", "recursive save")]
    [] ev.op = "Load" ->
         LET recs == ev.recs
             unknown == {m \in MentionedMarkers(recs) : Carrier(E, m) = {}}
             fresh == DOMAIN obs \ DOMAIN E
             carriers(m) == {h \in fresh : obs[h][1] = <<m>>}
             wellFormed == /\ \A m \in unknown : Cardinality(carriers(m)) = 1
                           /\ Cardinality(fresh) = Cardinality(unknown)
             NewOf == [m \in unknown |-> IF carriers(m) # {} THEN CHOOSE h \in carriers(m) : TRUE ELSE <<0 - 1, 0 - 1>>]
             E2 == ApplyRecs(E, recs, 1, NewOf)
             prop == ev.ctx
         IN IF \E m \in MentionedMarkers(recs) : Risky(m) THEN [S |-> put(obs, [W EXCEPT !.issued = @ \cup fresh, !.stale = StaleAfter]), f |-> {}] ELSE
            [S |-> put(IF wellFormed THEN E2 ELSE obs, [W EXCEPT !.issued = @ \cup fresh]),
             f |-> (IF panic THEN {F(prop, "deserialisation failed", ev.panic)} ELSE {})
              \cup (IF ~panic /\ ~wellFormed
                    THEN {F(prop, "load must create exactly one entity per unknown marker and none otherwise (unknown markers, new entities)", <<unknown, [h \in fresh |-> obs[h][1]]>>)} ELSE {})
              \cup (IF ~panic /\ wellFormed THEN cmp(E2, prop, "load") ELSE {})
              \cup (IF fresh \cap W.issued # {} THEN {F("C01", "entity created during deserialisation reuses a handle", fresh \cap W.issued)} ELSE {})]
=============================================================================
