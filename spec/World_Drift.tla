----------------------------- MODULE World_Drift -----------------------------
(***************************************************************************)
(* Conformance of the implementation-shaped model to the code (impl ->      *)
(* L1).  The scripts TLC emitted from World_MC are replayed on the real     *)
(* World; here TLC re-executes every such script on World_L1 and compares,  *)
(* event by event, what the model predicts with what the code did:          *)
(* handles (index AND generation, i.e. the exact free-list discipline),     *)
(* results and failing positions of deletions, aliveness of every handle,   *)
(* the entities join, every storage's mask and which lookups are present.   *)
(* (Component ids / written values are numbered differently by the harness  *)
(* and are not compared here; World_L0 checks them.)                        *)
(*                                                                          *)
(* A mismatch is DRIFT, not a property violation: the properties do not     *)
(* pin these internals.  It means the model no longer describes this code   *)
(* and the exhaustive TLC result for L1 says nothing about it.              *)
(***************************************************************************)
EXTENDS World_L1, Json, IOUtils

Scripts == ndJsonDeserialize(IOEnv.SCRIPTS)    \* [tid, ops] in the order the harness ran them
Rec == ndJsonDeserialize(IOEnv.TRACE)

VARIABLES k, l, drift
vars == <<k, l, drift>>

Present(v) == v # <<>>

\* projection of an event to what both sides number identically
ObsP(o) == [hs |-> o.hs, alive |-> o.alive, join |-> o.join,
            masks |-> [s \in 1..Len(o.st) |-> o.st[s].mask],
            has |-> [s \in 1..Len(o.st) |-> [i \in 1..Len(o.st[s].get) |-> Present(o.st[s].get[i])]]]

Proj(e) ==
  LET base == CASE e.op = "Created" -> <<e.op, e.path, e.h, Len(e.with)>>
                [] e.op = "Delete" -> <<e.op, e.h, e.ok>>
                [] e.op = "DeleteBatch" -> <<e.op, e.hs, e.ok, e.pos>>
                [] e.op = "EDelete" -> <<e.op, e.h, e.ok>>
                [] e.op = "SOp" -> <<e.op, e.cls, e.s, e.h, IF "b" \in DOMAIN e THEN e.b ELSE Present(e.res)>>
                [] e.op = "LazyRun" -> <<e.op, e.id>>
                [] e.op = "LazyQueue" -> <<e.op, e.k>>
                [] OTHER -> <<e.op>>
  IN IF "obs" \in DOMAIN e THEN <<base, ObsP(e.obs)>> ELSE <<base>>

\* GenericWriteStorage::remove (class "gremove" in the trace) is a removal that reports no result
Same(m, r) ==
  IF r.op = "SOp" /\ r.cls = "gremove"
  THEN m.op = "SOp" /\ m.cls = "remove" /\ m.s = r.s /\ m.h = r.h
       /\ ("obs" \in DOMAIN m) = ("obs" \in DOMAIN r) /\ (("obs" \in DOMAIN m) => ObsP(m.obs) = ObsP(r.obs))
  ELSE Proj(m) = Proj(r)

\* compare the model's events for one op with the trace from line ll on; returns [l, bad]
RECURSIVE Cmp(_, _, _, _)
Cmp(evs, j, ll, bad) ==
  IF j > Len(evs) THEN [l |-> ll, bad |-> bad]
  ELSE IF ll > Len(Rec) THEN [l |-> ll, bad |-> bad + 1]
  ELSE IF Same(evs[j], Rec[ll]) THEN Cmp(evs, j + 1, ll + 1, bad)
  \* the harness skips a restricted lookup when the storage has no item to ask from
  ELSE IF evs[j].op = "SOp" /\ evs[j].cls \in {"read", "write"} /\ (Rec[ll].op # "SOp" \/ Rec[ll].h # evs[j].h \/ Rec[ll].cls # evs[j].cls)
       THEN Cmp(evs, j + 1, ll, bad)
  ELSE Cmp(evs, j + 1, ll + 1, bad + 1)

RECURSIVE Run(_, _, _, _, _)
Run(st, ops, j, ll, bad) ==
  IF j > Len(ops) THEN [l |-> ll, bad |-> bad]
  ELSE LET ok == ~("h" \in DOMAIN ops[j]) \/ ops[j].h <= Len(st.handles)
           r == IF ok THEN Exec(st, ops[j]) ELSE [st |-> st, evs |-> <<>>]
           c == Cmp(r.evs, 1, ll, bad)
       IN Run(r.st, ops, j + 1, c.l, c.bad)

\* one step = one script: Reset line, the script's events, DropWorld line
DInit == k = 1 /\ l = 1 /\ drift = <<>>
DNext ==
  /\ k <= Len(Scripts) /\ l <= Len(Rec)
  /\ LET sc == Scripts[k]
         okHead == Rec[l].op = "Reset" /\ Rec[l].cfg.tid = sc.tid
         r == Run(Init0, sc.ops, 1, l + 1, 0)
         \* resynchronise on the next Reset whatever happened
         nxt == CHOOSE x \in (l + 1)..(Len(Rec) + 1) : (x = Len(Rec) + 1 \/ Rec[x].op = "Reset") /\ \A y \in (l + 1)..(x - 1) : Rec[y].op # "Reset"
     IN /\ drift' = IF ~okHead \/ r.bad > 0 THEN Append(drift, <<sc.tid, r.bad>>) ELSE drift
        /\ l' = nxt
        /\ k' = k + 1
DSpec == DInit /\ [][DNext]_vars

Verdict == (k = Len(Scripts) + 1) => PrintT(<<"DRIFT", ToJson([scripts |-> Len(Scripts), drifted |-> Len(drift), first |-> SubSeq(drift, 1, IF Len(drift) < 5 THEN Len(drift) ELSE 5)])>>)
=============================================================================
