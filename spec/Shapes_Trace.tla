---------------------------- MODULE Shapes_Trace ----------------------------
EXTENDS Shapes, Json, IOUtils
Rec == ndJsonDeserialize(IOEnv.TRACE)
VARIABLES l, viol
vars == <<l, viol>>
TInit == l = 1 /\ viol = {}
TNext ==
  /\ l <= Len(Rec)
  /\ viol' = viol \cup {[line |-> l, tid |-> Rec[l].tid, p |-> x[1], m |-> x[2], d |-> x[3]] : x \in Check(Rec[l])}
  /\ l' = l + 1
TSpec == TInit /\ [][TNext]_vars
Verdict == (l = Len(Rec) + 1) => PrintT(<<"VERDICT", ToJson([n |-> Len(Rec), viol |-> viol])>>)
Accepted == TLCGet("stats").diameter = Len(Rec) + 1
=============================================================================
