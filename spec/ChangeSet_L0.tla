--------------------------- MODULE ChangeSet_L0 ---------------------------
(***************************************************************************)
(* Property-level specification of ChangeSet (C16) as a function of one    *)
(* logged experiment: the (entity index, amount) pairs in arrival order,   *)
(* how they were fed in (collect / extend / add - irrelevant to the        *)
(* result), and what the real ChangeSet then showed.  Amounts record how    *)
(* they were combined ("+=" builds the expression "(lhs+rhs)"), so both    *)
(* the order and the association of the combination are observable.        *)
(***************************************************************************)
EXTENDS Naturals, Integers, Sequences, FiniteSets, TLC

F(p, m, d) == <<p, m, ToString(d)>>
SeqToSet(q) == {q[i] : i \in 1..Len(q)}

SortedSeq(T) ==
  LET RECURSIVE B(_, _)
      B(rest, acc) == IF rest = {} THEN acc
                      ELSE LET m == CHOOSE x \in rest : \A y \in rest : x <= y IN B(rest \ {m}, Append(acc, m))
  IN B(T, <<>>)

\* the accumulated amount of index i: its amounts combined left to right in arrival order,
\* written as the expression the combination builds: x1, (x1+x2), ((x1+x2)+x3), ...
RECURSIVE AccFrom(_, _, _, _)
AccFrom(pairs, i, k, acc) ==
  IF k > Len(pairs) THEN acc
  ELSE IF pairs[k][1] = i
       THEN AccFrom(pairs, i, k + 1, IF acc = "" THEN ToString(pairs[k][2]) ELSE "(" \o acc \o "+" \o ToString(pairs[k][2]) \o ")")
       ELSE AccFrom(pairs, i, k + 1, acc)
Acc(pairs, i, k) == AccFrom(pairs, i, k, "")

Mentioned(pairs) == {pairs[k][1] : k \in 1..Len(pairs)}

\* expected listing <<index, accumulated amount>> ascending
Listing(pairs, ids) == LET o == SortedSeq(ids) IN [j \in 1..Len(o) |-> <<o[j], Acc(pairs, o[j], 1)>>]

\* ev.pairs         arrival order <<index, amount>>
\* ev.ref           (&changeset).join() with indices, as yielded
\* ev.with_store    ((&changeset, &storage).join(): <<index, amount, component>>
\* ev.store         contents of that storage <<index, component>>
\* ev.after_mut     listing after (&mut changeset).join() appended ev.tag to every amount
\* ev.after_mut2    listing after (&mut changeset, &storage).join() appended the paired component's id
\* ev.value         amounts yielded by consuming the change set (first ev.take; all if < 0)
\* ev.ledger        instrumented drop accounting of the amount values
Check(ev) ==
  LET ids == Mentioned(ev.pairs)
      want == Listing(ev.pairs, ids)
      sids == {ev.store[k][1] : k \in 1..Len(ev.store)}
      compAt(i) == ev.store[CHOOSE k \in 1..Len(ev.store) : ev.store[k][1] = i][2]
      o2 == SortedSeq(ids \cap sids)
      wantStore == [j \in 1..Len(o2) |-> <<o2[j], Acc(ev.pairs, o2[j], 1), compAt(o2[j])>>]
      wantMut == [j \in 1..Len(want) |-> <<want[j][1], "(" \o want[j][2] \o "+" \o ToString(ev.tag) \o ")">>]
      \* then a mutable join together with the storage appended, to the amounts of the entities that have a
      \* component there, the id of THAT component
      wantMut2 == [j \in 1..Len(wantMut) |-> IF wantMut[j][1] \in sids
                                             THEN <<wantMut[j][1], "(" \o wantMut[j][2] \o "+" \o ToString(compAt(wantMut[j][1])[1]) \o ")">>
                                             ELSE wantMut[j]]
      n == IF ev.take < 0 \/ ev.take > Len(wantMut2) THEN Len(wantMut2) ELSE ev.take
      wantValue == SubSeq(wantMut2, 1, n)
      L == ev.ledger
      \* C19: clear() interrupted by a panicking destructor (ev.fclear = k > 0): afterwards the set
      \* lists nothing that was destroyed, accepts a new amount, and nothing is destroyed twice;
      \* what it still lists besides the new amount is unspecified (leaks are allowed)
      \* (ev.refill: the pairs added after the clear, accumulated like any others)
      wantPost == IF ev.fclear = 0 THEN <<>> ELSE Listing(ev.refill, Mentioned(ev.refill))
      wantValueF == SubSeq(wantPost, 1, IF ev.take < 0 \/ ev.take > Len(wantPost) THEN Len(wantPost) ELSE ev.take)
  IN IF ev.panic # "" THEN {F("C16", "panic", ev.panic), F("C08", "panic", ev.panic)}
     ELSE IF ev.fclear > 0 THEN
       (IF ev.ref # want THEN {F("C16", "accumulated amounts (got, expected)", <<ev.ref, want>>)} ELSE {})
       \cup (IF ev.exposed # <<>> THEN {F("C19", "after an interrupted clear() the change set still lists destroyed values", ev.exposed)} ELSE {})
       \cup (IF L.anomalies # <<>> THEN {F("C19", "a value of the change set was destroyed twice", L.anomalies),
                                         F("C08", "a value of the change set was destroyed twice", L.anomalies)} ELSE {})
       \cup (IF ev.exposed # <<>> THEN {F("C08", "the change set hands out values that were already destroyed", ev.exposed)} ELSE {})
       \cup (IF ~ev.fired /\ (ev.post_clear # wantPost \/ ev.value # wantValueF)
             THEN {F("C16", "after clear() the change set must hold only what is added afterwards (got, expected)", <<ev.post_clear, wantPost>>)} ELSE {})
     ELSE
       (IF ev.ref # want THEN {F("C16", "accumulated amounts (got, expected)", <<ev.ref, want>>)} ELSE {})
  \cup (IF ev.with_store # wantStore THEN {F("C16", "join with a storage (got, expected)", <<ev.with_store, wantStore>>)} ELSE {})
  \cup (IF ev.after_mut # wantMut THEN {F("C16", "after a mutable join (got, expected)", <<ev.after_mut, wantMut>>)} ELSE {})
  \cup (IF ev.after_mut2 # wantMut2 THEN {F("C16", "after a mutable join together with a storage (got, expected)", <<ev.after_mut2, wantMut2>>)} ELSE {})
  \cup (IF ev.value # wantValue THEN {F("C16", "consuming the change set (got, expected)", <<ev.value, wantValue>>)} ELSE {})
  \* which values end where: the amount object of an entity is the one that arrived first (later ones are
  \* merged into it and destroyed by the library); consuming the set hands back exactly the objects of the
  \* entities it yielded, everything else is destroyed by the library
  \cup (LET firstK(i) == CHOOSE k \in 1..Len(ev.pairs) : ev.pairs[k][1] = i /\ \A j \in 1..(k - 1) : ev.pairs[j][1] # i
            wantRet == {firstK(want[j][1]) : j \in 1..n}
            wantDes == (1..Len(ev.pairs)) \ wantRet
            mine == 1..Len(ev.pairs)        \* (the ledger also holds the components of the storage joined with)
        IN IF (SeqToSet(L.returned) \cap mine) # wantRet \/ (SeqToSet(L.destroyed) \cap mine) # wantDes
           THEN {F("C16", "amount objects handed back / destroyed (returned, expected, destroyed, expected)", <<L.returned, wantRet, L.destroyed, wantDes>>),
                 F("C08", "amount objects handed back / destroyed (returned, expected, destroyed, expected)", <<L.returned, wantRet, L.destroyed, wantDes>>)}
           ELSE {})
  \cup (IF L.held # <<>> \/ L.anomalies # <<>>
        THEN {F("C16", "amount values leaked or dropped twice", <<L.held, L.anomalies>>),
              F("C08", "values added to a change set leaked or were destroyed twice (held, anomalies)", <<L.held, L.anomalies>>)} ELSE {})
=============================================================================
