--------------------------- MODULE ChangeSet_MC ---------------------------
(***************************************************************************)
(* Implementation-shaped model of ChangeSet (src/changeset.rs): a mask     *)
(* plus a DenseVecStorage (data / entity_id / data_id); add() either       *)
(* `+=`es into the stored amount or inserts and sets the mask bit.  TLC    *)
(* explores every sequence of add() over the index set, checks after each  *)
(* step that what a join would list equals ChangeSet_L0!Listing, and       *)
(* prints every pair sequence as a script for the real ChangeSet.          *)
(***************************************************************************)
EXTENDS ChangeSet_L0, Json

CONSTANTS Ids, MaxPairs, Emit

VARIABLES mask, data, eid, did, pairs

MCInit == mask = {} /\ data = <<>> /\ eid = <<>> /\ did = [i \in Ids |-> 0 - 1] /\ pairs = <<>>

Add(i) ==
  LET amt == Len(pairs) + 1 IN
  /\ pairs' = Append(pairs, <<i, amt>>)
  /\ IF i \in mask
     THEN /\ data' = [data EXCEPT ![did[i] + 1] = "(" \o @ \o "+" \o ToString(amt) \o ")"]   \* *get_mut(id) += value
          /\ UNCHANGED <<mask, eid, did>>
     ELSE /\ did' = [did EXCEPT ![i] = Len(data)]                       \* inner.insert(id, value); mask.add(id)
          /\ eid' = Append(eid, i)
          /\ data' = Append(data, ToString(amt))
          /\ mask' = mask \cup {i}
  /\ (Emit => PrintT(<<"SCRIPT", ToJson(Append(pairs, <<i, amt>>))>>))

MCNext == Len(pairs) < MaxPairs /\ \E i \in Ids : Add(i)
MCSpec == MCInit /\ [][MCNext]_<<mask, data, eid, did, pairs>>

\* what (&changeset).join() lists: mask order, value through data_id
Listed == LET o == SortedSeq(mask) IN [j \in 1..Len(o) |-> <<o[j], data[did[o[j]] + 1]>>]

Refines == Listed = Listing(pairs, Mentioned(pairs))
Struct == /\ Len(data) = Len(eid) /\ Cardinality(mask) = Len(data)
          /\ \A k \in 1..Len(eid) : did[eid[k]] = k - 1
=============================================================================
