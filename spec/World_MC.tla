------------------------------ MODULE World_MC ------------------------------
(***************************************************************************)
(* TLC harness: explores every sequence of operations of World_L1 within   *)
(* the bounds, feeds the events it produces to the property monitor        *)
(* World_L0 (invariant NoViol = "the algorithm as written satisfies every  *)
(* world property on every small history"), checks L1's own structural     *)
(* invariants, and prints one op script per explored transition (prefix =  *)
(* discovery path of the source state) for replay on the real code.        *)
(***************************************************************************)
EXTENDS World_L1, Json

CONSTANTS MaxH,        \* handles per behaviour
          MaxOps,      \* operations per behaviour
          MaxC,        \* component values created per behaviour
          MaxGen,      \* largest generation
          Fams,        \* op families: subset of {"alloc","defer","batch","store","lazy","exec"}
          Emit         \* TRUE: print scripts

L0 == INSTANCE World_L0

VARIABLES st, w, viol, hist

WithChoices == IF S = 0 THEN {<<>>} ELSE {<<>>, <<1>>} \cup (IF S >= 2 THEN {<<1, 2>>} ELSE {})

BodyMenu(H) ==
     {<<>>, <<[o |-> "create", with |-> <<>>]>>, <<[o |-> "ecreate"]>>, <<[o |-> "lexec", body |-> <<>>]>>}
  \cup (IF S >= 1 THEN {<<[o |-> "lcreate", with |-> <<1>>]>>} ELSE {})
  \cup {<<[o |-> "delete", h |-> k]>> : k \in H}
  \cup {<<[o |-> "edelete", h |-> k]>> : k \in H}
  \cup (IF S >= 1 THEN {<<[o |-> "sop", cls |-> "insert", s |-> 1, h |-> k]>> : k \in H} ELSE {})

Ops ==
  LET H == 1..Len(st.handles) SS == 1..S IN
     (IF "alloc" \in Fams THEN
        {[o |-> "create", with |-> wl] : wl \in WithChoices}
        \cup {[o |-> "delete", h |-> k] : k \in H}
        \cup {[o |-> "maintain"]}
      ELSE {})
  \cup (IF "defer" \in Fams THEN
        {[o |-> "ecreate"]} \cup {[o |-> "edelete", h |-> k] : k \in H}
        \cup {[o |-> "create_drop", with |-> wl] : wl \in WithChoices}
        \cup {[o |-> "ebuild", with |-> wl] : wl \in WithChoices}
        \cup {[o |-> "ebuild_drop", with |-> wl] : wl \in WithChoices}
      ELSE {})
  \cup (IF "batch" \in Fams THEN
        {[o |-> "delete_batch", hs |-> <<a, b>>] : a \in H, b \in H} \cup {[o |-> "delete_all"]}
      ELSE {})
  \cup (IF "store" \in Fams THEN
        {[o |-> "sop", cls |-> c, s |-> s, h |-> k] : c \in {"read", "write", "insert", "orins", "remove", "gmod"}, s \in SS, k \in H}
      ELSE {})
  \cup (IF "lazy" \in Fams THEN
        {[o |-> "linsert", s |-> s, h |-> k] : s \in SS, k \in H}
        \cup {[o |-> "lremove", s |-> s, h |-> k] : s \in SS, k \in H}
        \cup {[o |-> "lcreate", with |-> wl] : wl \in WithChoices}
      ELSE {})
  \cup (IF "exec" \in Fams THEN {[o |-> "lexec", body |-> b] : b \in BodyMenu(H)} ELSE {})

Creates(op) == op.o \in {"create", "create_drop", "ecreate", "ebuild", "ebuild_drop", "lcreate"}

RECURSIVE Fold(_, _, _, _)
Fold(ww, vv, evs, k) ==
  IF k > Len(evs) THEN [w |-> ww, viol |-> vv]
  ELSE LET r == L0!Step(ww, evs[k]) IN Fold(r.w, vv \cup r.f, evs, k + 1)

MCInit ==
  /\ st = Init0
  /\ w = L0!W0([S |-> S, zst |-> [s \in 1..S |-> FALSE], tid |-> 0])
  /\ viol = {}
  /\ hist = <<>>

MCNext ==
  /\ Len(hist) < MaxOps
  /\ \E op \in Ops :
       /\ Creates(op) => Len(st.handles) < MaxH /\ st.maxId < MaxIdx
       /\ LET r == Exec(st, op)
              f == Fold(w, viol, r.evs, 1)
          IN /\ st' = r.st
             /\ w' = f.w
             /\ viol' = f.viol
             /\ hist' = Append(hist, op)
             /\ (Emit => PrintT(<<"SCRIPT", ToJson(Append(hist, op))>>))

MCSpec == MCInit /\ [][MCNext]_<<st, w, viol, hist>>

Bound ==
  /\ st.ncid <= MaxC
  /\ \A i \in Idx : st.gens[i] <= MaxGen /\ st.gens[i] >= 0 - MaxGen
  /\ Len(st.lazyq) <= 3

View == <<st, w>>

NoViol == viol = {}
StructInv == Struct(st)
RecycleInv == Recycle(st)
=============================================================================
