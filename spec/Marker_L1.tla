----------------------------- MODULE Marker_L1 -----------------------------
(***************************************************************************)
(* Implementation-shaped model of marking, saving and loading              *)
(* (src/saveload/marker.rs, ser.rs, de.rs) in one world:                   *)
(*                                                                         *)
(*   SimpleMarkerAllocator  ctr (the `index` counter), map (id -> handle,  *)
(*                          rebuilt only by the allocator's maintain, so   *)
(*                          it may point at dead entities in between)      *)
(*   marker storage         part of each live entity's content             *)
(*   allocate(e, None)      id := ctr, ctr++          ; map[id] := e       *)
(*   allocate(e, Some(id))  ctr := max(ctr, id + 1)   ; map[id] := e       *)
(*   retrieve_entity(m)     map[m] = e and e still holds a marker ->       *)
(*                          update it, return e; otherwise create an       *)
(*                          entity (shared-access creation), allocate      *)
(*   mark(e)                through the entry API: existing marker wins    *)
(*   serialize              one record per marked live entity, index       *)
(*                          order, references converted through markers    *)
(*   deserialize            record by record: retrieve_entity(marker),     *)
(*                          then every component: present -> insert        *)
(*                          (references through retrieve_entity),          *)
(*                          absent -> remove                               *)
(*                                                                         *)
(* Entities are handles <<index, generation>>; the index freed last is      *)
(* reused first, as in the entity allocator (so a stale mapping can point   *)
(* at an index that now belongs to somebody else).  Every operation yields the event the harness would  *)
(* record (complete world content), and Marker_MC feeds it to              *)
(* SaveLoad_L0!Step: TLC checks "L1 => L0" for every history in scope.     *)
(***************************************************************************)
EXTENDS Naturals, Integers, Sequences, FiniteSets, TLC

CONSTANTS MaxIdx     \* indices 0..MaxIdx-1

None == <<>>
Idx == 0..(MaxIdx - 1)

Init0 == [ ents |-> <<>>,                 \* handle -> <<m, a, b, r>>
           gen  |-> [i \in Idx |-> 0],    \* last generation used on an index
           free |-> <<>>,                 \* the entity allocator's free list (the index freed last is reused first)
           next |-> 0,                    \* next never-used index
           ctr  |-> 0,
           map  |-> <<>> ]                \* id -> handle

FnSet(f, k, v) == [x \in DOMAIN f \cup {k} |-> IF x = k THEN v ELSE f[x]]
FnDel(f, ks)   == [x \in DOMAIN f \ ks |-> f[x]]
SeqToSet(q) == {q[i] : i \in 1..Len(q)}

SortedById(T) ==
  LET ids == {h[1] : h \in T}
      RECURSIVE B(_, _)
      B(rest, acc) == IF rest = {} THEN acc
                      ELSE LET m == CHOOSE x \in rest : \A y \in rest : x <= y
                           IN B(rest \ {m}, acc \o <<CHOOSE h \in T : h[1] = m>>)
  IN B(ids, <<>>)

Obs(st) == LET o == SortedById(DOMAIN st.ents) IN
           [k \in 1..Len(o) |-> <<o[k], st.ents[o[k]][1], st.ents[o[k]][2], st.ents[o[k]][3], st.ents[o[k]][4]>>]

Free(st) == {i \in Idx : \A h \in DOMAIN st.ents : h[1] # i}
CanCreate(st) == Free(st) # {}

\* creation: the index freed last if there is one, else the next never-used index; next generation
Create(st) ==
  LET fromList == st.free # <<>>
      i == IF fromList THEN st.free[Len(st.free)] ELSE st.next
      h == <<i, st.gen[i] + 1>>
  IN [st |-> [st EXCEPT !.ents = FnSet(st.ents, h, <<None, None, None, None>>), !.gen[i] = @ + 1,
                        !.free = IF fromList THEN SubSeq(@, 1, Len(@) - 1) ELSE @,
                        !.next = IF fromList THEN @ ELSE @ + 1], h |-> h]

Allocate(st, e, id, given) ==
  LET m == IF given THEN id ELSE st.ctr
      c == IF given THEN (IF id >= st.ctr THEN id + 1 ELSE st.ctr) ELSE st.ctr + 1
  IN [st |-> [st EXCEPT !.ctr = c, !.map = FnSet(st.map, m, e)], m |-> m]

HasMarker(st, e) == e \in DOMAIN st.ents /\ st.ents[e][1] # None

\* MarkerAllocator::retrieve_entity
Retrieve(st, m) ==
  IF m \in DOMAIN st.map /\ HasMarker(st, st.map[m])
  THEN [st |-> [st EXCEPT !.ents[st.map[m]] = <<<<m>>, @[2], @[3], @[4]>>], e |-> st.map[m]]
  ELSE IF ~CanCreate(st) THEN [st |-> st, e |-> <<0 - 1, 0 - 1>>]      \* out of model scope (guarded by Marker_MC)
  ELSE LET c == Create(st)
           a == Allocate(c.st, c.h, m, TRUE)
       IN [st |-> [a.st EXCEPT !.ents[c.h] = <<<<m>>, None, None, None>>], e |-> c.h]

\* number of entities a load of recs would create (to stay inside the index space)
Needed(st, recs) ==
  Cardinality({m \in {recs[k].m : k \in 1..Len(recs)} \cup UNION {IF recs[k].r = None THEN {} ELSE SeqToSet(recs[k].r[1]) : k \in 1..Len(recs)} :
                 ~(m \in DOMAIN st.map /\ HasMarker(st, st.map[m]))})

RECURSIVE LoadRecs(_, _, _)
LoadRecs(st, recs, k) ==
  IF k > Len(recs) THEN st
  ELSE LET rec == recs[k]
           r1 == Retrieve(st, rec.m)
           e == r1.e
           \* components in tuple order: a, b, then the reference component (converted one by one)
           RECURSIVE Refs(_, _, _)
           Refs(s, j, acc) == IF rec.r = None \/ j > Len(rec.r[1]) THEN [st |-> s, hs |-> acc]
                              ELSE LET rr == Retrieve(s, rec.r[1][j]) IN Refs(rr.st, j + 1, Append(acc, rr.e))
           rf == Refs(r1.st, 1, <<>>)
           st2 == [rf.st EXCEPT !.ents[e] = <<@[1], rec.a, rec.b, IF rec.r = None THEN None ELSE <<rf.hs>> >>]
       IN LoadRecs(st2, recs, k + 1)

Marked(st) == {h \in DOMAIN st.ents : st.ents[h][1] # None}
\* (IF rather than \/ : inside an action TLC explores both disjuncts)
Convertible(st, h) == IF st.ents[h][4] = None THEN TRUE ELSE \A k \in 1..Len(st.ents[h][4][1]) : HasMarker(st, st.ents[h][4][1][k])
RecordOf(st, h) ==
  [m |-> st.ents[h][1][1], a |-> st.ents[h][2], b |-> st.ents[h][3],
   r |-> IF st.ents[h][4] = None THEN None
         ELSE << [k \in 1..Len(st.ents[h][4][1]) |-> st.ents[st.ents[h][4][1][k]][1][1]] >>]
SaveData(st) == LET o == SortedById(Marked(st)) IN [k \in 1..Len(o) |-> RecordOf(st, o[k])]

\* ------------------------------------------------------------ operations
\* every operation returns [st, ev] ; ev in the vocabulary of SaveLoad_L0 (world 1)
Ev(st, r) == [x \in DOMAIN r \cup {"obs", "w", "panic"} |-> IF x = "obs" THEN Obs(st) ELSE IF x = "w" THEN 1 ELSE IF x = "panic" THEN "" ELSE r[x]]

Exec(st, op) ==
  CASE op.o = "create" ->
         LET c == Create(st)
             st2 == [c.st EXCEPT !.ents[c.h] = <<None, op.a, None, None>>]
         IN [st |-> st2, ev |-> Ev(st2, [op |-> "Create", h |-> c.h, a |-> op.a, b |-> None])]
    [] op.o = "mark" ->          \* storage.entry(e)?.or_insert_with(|| allocate(e, None))
         LET h == op.h IN
         IF h \notin DOMAIN st.ents THEN [st |-> st, ev |-> Ev(st, [op |-> "Mark", h |-> h, res |-> None, new |-> FALSE])]
         ELSE IF st.ents[h][1] # None THEN [st |-> st, ev |-> Ev(st, [op |-> "Mark", h |-> h, res |-> st.ents[h][1], new |-> FALSE])]
         ELSE LET a == Allocate(st, h, 0, FALSE)
                  st2 == [a.st EXCEPT !.ents[h] = <<<<a.m>>, @[2], @[3], @[4]>>]
              IN [st |-> st2, ev |-> Ev(st2, [op |-> "Mark", h |-> h, res |-> <<a.m>>, new |-> TRUE])]
    [] op.o = "delete" ->
         LET st2 == [st EXCEPT !.ents = FnDel(st.ents, {op.h}),
                               !.free = IF op.h \in DOMAIN st.ents THEN Append(@, op.h[1]) ELSE @] IN
         [st |-> st2, ev |-> Ev(st2, [op |-> "Delete", h |-> op.h])]
    [] op.o = "setr" ->
         IF op.h \notin DOMAIN st.ents THEN [st |-> st, ev |-> Ev(st, [op |-> "Set", h |-> op.h, c |-> "r", v |-> op.v])]
         ELSE LET st2 == [st EXCEPT !.ents[op.h] = <<@[1], @[2], @[3], op.v>>] IN
              [st |-> st2, ev |-> Ev(st2, [op |-> "Set", h |-> op.h, c |-> "r", v |-> op.v])]
    [] op.o = "retrieve" ->      \* MarkerAllocator::retrieve_entity called directly
         LET r == Retrieve(st, op.m) IN
         [st |-> r.st, ev |-> Ev(r.st, [op |-> "Retrieve", m |-> op.m, res |-> r.e])]
    [] op.o = "amaintain" ->     \* mapping rebuilt from the (entities, markers) join
         LET st2 == [st EXCEPT !.map = [m \in {st.ents[h][1][1] : h \in Marked(st)} |-> CHOOSE h \in Marked(st) : st.ents[h][1][1] = m]] IN
         [st |-> st2, ev |-> Ev(st2, [op |-> "AMaintain"])]
    [] op.o = "save" ->
         [st |-> st, ev |-> Ev(st, [op |-> "Save", rec |-> FALSE, fmt |-> "json", data |-> SaveData(st)])]
    [] op.o = "load" ->          \* op.recs: the records; ctx as the harness computes it
         LET st2 == LoadRecs(st, op.recs, 1) IN
         [st |-> st2, ev |-> Ev(st2, [op |-> "Load", recs |-> op.recs, ctx |-> IF DOMAIN st.ents = {} THEN "C14" ELSE "C15"])]

\* structural invariants of the allocator
Struct(st) ==
  /\ \A g, h \in Marked(st) : g # h => st.ents[g][1] # st.ents[h][1]
  /\ \A h \in Marked(st) : st.ents[h][1][1] < st.ctr
  \* a live marked entity is always reachable through the mapping unless the marker was loaded... (always, here)
  /\ \A h \in Marked(st) : st.ents[h][1][1] \in DOMAIN st.map /\ st.map[st.ents[h][1][1]] = h
=============================================================================
