------------------------------ MODULE Join_L0 ------------------------------
(***************************************************************************)
(* Property-level specification of joins (C06, C07) as a function of one   *)
(* logged join: the members with their membership and contents before the  *)
(* join, the items that were delivered, the contents afterwards and the    *)
(* answers of the lending join's lookup by entity.                         *)
(*                                                                         *)
(* Member kinds (ev.mem[k].k):                                             *)
(*   "r" &storage   "w" &mut storage   "e" &entities                       *)
(*   "n" !&storage (negated)   "m" (&storage).maybe()   "mw" (&mut).maybe()*)
(*   "b" &BitSet  "bv" BitSet  "band" "bor" "bxor" "bnot" bit-set          *)
(*   combinations of ids and ids2   "rs" &restrict()  "rsm" &mut           *)
(*   restrict_mut()   "cs" &ChangeSet "csm" &mut ChangeSet "csv" ChangeSet *)
(*   "dr" storage.drain()                                                  *)
(*                                                                         *)
(* A join visits exactly the indices in every required member and in no    *)
(* negated one, ascending, once each; each item carries that index's own   *)
(* values; a write through an item changes that entity's component and no  *)
(* other; the parallel join delivers the same multiset of items.           *)
(***************************************************************************)
EXTENDS Naturals, Integers, Sequences, FiniteSets, TLC

F(p, m, d) == <<p, m, ToString(d)>>
SeqToSet(q) == {q[i] : i \in 1..Len(q)}
Unit == <<-3>>

SortedSeq(T) ==
  LET RECURSIVE B(_, _)
      B(rest, acc) == IF rest = {} THEN acc
                      ELSE LET m == CHOOSE x \in rest : \A y \in rest : x <= y IN B(rest \ {m}, Append(acc, m))
  IN B(T, <<>>)

Ids(m) == SeqToSet(m.ids)
Ids2(m) == SeqToSet(m.ids2)
ValAt(m, i) == LET p == {k \in 1..Len(m.vals) : m.vals[k][1] = i} IN
               IF p = {} THEN <<>> ELSE m.vals[CHOOSE k \in p : TRUE][2]
Has(m, i) == \E k \in 1..Len(m.vals) : m.vals[k][1] = i

EntIds(ev) == {ev.ents[k][1] : k \in 1..Len(ev.ents)}
EntAt(ev, i) == ev.ents[CHOOSE k \in 1..Len(ev.ents) : ev.ents[k][1] = i]

Valued == {"r", "w", "rs", "rsm", "cs", "csm", "csv", "dr"}

\* indices a member requires (for members that constrain the join)
Required(ev, m) ==
  CASE m.k \in Valued -> {m.vals[k][1] : k \in 1..Len(m.vals)}
    [] m.k = "e" -> EntIds(ev)
    [] m.k \in {"b", "bv"} -> Ids(m)
    [] m.k = "band" -> Ids(m) \cap Ids2(m)
    [] m.k = "bor" -> Ids(m) \cup Ids2(m)
    [] m.k = "bxor" -> (Ids(m) \ Ids2(m)) \cup (Ids2(m) \ Ids(m))

Constrains(m) == m.k \in Valued \cup {"e", "b", "bv", "band", "bor", "bxor"}
Negated(m) == IF m.k = "n" THEN {m.vals[k][1] : k \in 1..Len(m.vals)}
              ELSE IF m.k = "bnot" THEN Ids(m) ELSE {}

Mem(ev) == ev.mem
Universe(ev) == UNION {Required(ev, Mem(ev)[k]) : k \in {j \in 1..Len(Mem(ev)) : Constrains(Mem(ev)[j])}}

Result(ev) ==
  {i \in Universe(ev) :
      /\ \A k \in 1..Len(Mem(ev)) : Constrains(Mem(ev)[k]) => i \in Required(ev, Mem(ev)[k])
      /\ \A k \in 1..Len(Mem(ev)) : i \notin Negated(Mem(ev)[k])}

\* the value member k contributes to the item at index i
ItemVal(ev, m, i) ==
  CASE m.k \in Valued -> ValAt(m, i)
    [] m.k \in {"m", "mw"} -> ValAt(m, i)          \* <<>> when absent
    [] m.k \in {"n"} -> Unit
    [] m.k = "e" -> EntAt(ev, i)
    [] m.k \in {"b", "bv", "band", "bor", "bxor", "bnot"} -> <<i>>

ExpItem(ev, i) == [k \in 1..Len(Mem(ev)) |-> ItemVal(ev, Mem(ev)[k], i)]

\* printing order used by the harness for parallel joins: by JSON text; the
\* monitor therefore compares parallel results as multisets
SameMultiset(a, b) ==
  /\ Len(a) = Len(b)
  /\ \A x \in SeqToSet(a) \cup SeqToSet(b) :
       Cardinality({k \in 1..Len(a) : a[k] = x}) = Cardinality({k \in 1..Len(b) : b[k] = x})

\* strip the ["leaf", n] tag the split driver appends
StripLeaf(it) == SubSeq(it, 1, Len(it) - 1)

Mutable == {"w", "mw", "rsm", "csm"}

\* contents of member k afterwards, as predicted; inc(i) = how often the item at index i
\* was handed out (every hand-out of a mutable member writes value + 1)
ExpAfter(ev, k, visited, inc(_)) ==
  LET m == Mem(ev)[k] IN
  IF m.k = "dr" THEN SelectSeq(m.vals, LAMBDA p : p[1] \notin visited)
  ELSE IF m.k \in Mutable
       THEN [j \in 1..Len(m.vals) |-> IF m.vals[j][1] \in visited
                                      THEN <<m.vals[j][1], <<m.vals[j][2][1], m.vals[j][2][2] + inc(m.vals[j][1])>>>>
                                      ELSE m.vals[j]]
       ELSE m.vals

HasAfter(m) == m.k \in {"r", "w", "n", "m", "mw", "rs", "rsm", "dr", "cs", "csm"}

\* ---------------------------------------------------------------------
\* Unconstrained joins: every member is optional ("m", "mw") or negated ("n",
\* "bnot"), so the join visits every index of the index space (ev.top of them)
\* except the negated ones.  The harness counts all items and records those
\* that can be told apart: the ones in which an optional member is present
\* and, when a member yields the index itself, the ones at the indices ev.watch.
Unconstrained(ev) == \A k \in 1..Len(Mem(ev)) : ~Constrains(Mem(ev)[k])
UncResult(ev) ==
  LET neg == UNION {Negated(Mem(ev)[k]) : k \in 1..Len(Mem(ev))}
      may == UNION {IF Mem(ev)[k].k \in {"m", "mw"} THEN {Mem(ev)[k].vals[j][1] : j \in 1..Len(Mem(ev)[k].vals)} ELSE {} : k \in 1..Len(Mem(ev))}
      watch == IF \E k \in 1..Len(Mem(ev)) : Mem(ev)[k].k = "bnot" THEN SeqToSet(ev.watch) ELSE {}
  IN [rec |-> (may \cup watch) \ neg, count |-> ev.top - Cardinality(neg)]

Check(ev) ==
  LET unc == Unconstrained(ev) /\ "count" \in DOMAIN ev
      res == IF unc THEN UncResult(ev).rec ELSE Result(ev)
      order == SortedSeq(res)
      exp == [j \in 1..Len(order) |-> ExpItem(ev, order[j])]
      par == ev.variant \in {"par", "split"}
      prop == IF par THEN "C07" ELSE "C06"
      got == IF ev.variant = "split" THEN [j \in 1..Len(ev.items) |-> StripLeaf(ev.items[j])] ELSE ev.items
      itemsBad == IF ev.variant = "lend_get" THEN FALSE
                  ELSE IF par THEN ~SameMultiset(got, exp) ELSE got # exp
      \* is index i in the join?  (an unconstrained join contains every index no negated member excludes)
      uncAll == Unconstrained(ev)
      negAll == UNION {Negated(Mem(ev)[k]) : k \in 1..Len(Mem(ev))}
      InJoin(i) == IF uncAll THEN i \notin negAll ELSE i \in res
      got1(j) == IF ev.gets[j][3] # <<>> THEN 1 ELSE 0
      got2(j) == IF Len(ev.gets[j]) >= 4 /\ ev.gets[j][4] # <<>> THEN 1 ELSE 0
      visited == IF ev.variant = "lend_get"
                 THEN {ev.gets[j][1][1] : j \in {x \in 1..Len(ev.gets) : got1(x) + got2(x) > 0}}
                 ELSE res
      \* several probed handles may share an index (a dead handle and the index's current owner)
      RECURSIVE SumInc(_, _)
      SumInc(i, j) == IF j > Len(ev.gets) THEN 0
                      ELSE (IF ev.gets[j][1][1] = i THEN got1(j) + got2(j) ELSE 0) + SumInc(i, j + 1)
      inc(i) == IF ev.variant = "lend_get" THEN SumInc(i, 1) ELSE 1
      afterBad == {k \in 1..Len(Mem(ev)) : HasAfter(Mem(ev)[k]) /\ ev.after[k] # ExpAfter(ev, k, visited, inc)}
      \* lending get(entity): an item exactly when the entity is alive and in the join;
      \* get_unchecked(index): an item exactly when the index is in the join.  The probes run one
      \* after the other and every hand-out of a mutable member writes value + 1, so the value a
      \* probe sees is the original one plus the hand-outs at the same index before it.
      RECURSIVE Prior(_, _)
      Prior(j, x) == IF x >= j THEN 0
                     ELSE (IF ev.gets[x][1][1] = ev.gets[j][1][1] THEN got1(x) + got2(x) ELSE 0) + Prior(j, x + 1)
      bumpBy(it, n) == [k \in 1..Len(it) |-> IF Mem(ev)[k].k \in Mutable /\ it[k] # <<>> THEN <<it[k][1], it[k][2] + n>> ELSE it[k]]
      getsBad == {j \in 1..Len(ev.gets) :
                    LET h == ev.gets[j][1] alive == ev.gets[j][2] g == ev.gets[j][3]
                        want == IF alive /\ InJoin(h[1]) THEN bumpBy(ExpItem(ev, h[1]), Prior(j, 1)) ELSE <<>>
                    IN g # want}
      ugetsBad == {j \in 1..Len(ev.gets) :
                    Len(ev.gets[j]) >= 4 /\
                    LET h == ev.gets[j][1] u == ev.gets[j][4]
                        want == IF InJoin(h[1]) THEN bumpBy(ExpItem(ev, h[1]), Prior(j, 1) + got1(j)) ELSE <<>>
                    IN u # want}
  IN IF ev.variant = "skip" THEN {} ELSE
       (IF ev.panic # "" THEN {F(prop, "panic during join", ev.panic)} ELSE {})
  \cup (IF ev.panic = "" /\ unc /\ ev.count # UncResult(ev).count
        THEN {F(prop, "an unconstrained join delivers one item per index that no negated member excludes (delivered, expected)", <<ev.count, UncResult(ev).count>>)} ELSE {})
  \cup (IF ev.panic = "" /\ "pcount" \in DOMAIN ev /\ ev.pcount # Len(exp)
        THEN {F(prop, "par_join().count() differs from the number of indices in the join (counted, expected)", <<ev.pcount, Len(exp)>>)} ELSE {})
  \cup (IF ev.panic = "" /\ itemsBad THEN {F(prop, "delivered items differ from the join of the members (got, expected)", <<got, exp>>)} ELSE {})
  \cup (IF ev.panic = "" THEN {F(prop, "contents after the join (member, got, expected)", <<k, ev.after[k], ExpAfter(ev, k, visited, inc)>>) : k \in afterBad} ELSE {})
  \cup (IF ev.panic = "" THEN {F("C06", "lending get by entity (entity, alive, got)", ev.gets[j]) : j \in getsBad} ELSE {})
  \cup (IF ev.panic = "" THEN {F("C06", "lending get_unchecked by index (entity, alive, get, get_unchecked)", ev.gets[j]) : j \in ugetsBad} ELSE {})
=============================================================================
