--------------------------- MODULE AllocConc_L1 ---------------------------
(***************************************************************************)
(* Concurrent use of the entity allocator through shared access (C10):     *)
(* N threads run short programs over Entities::create, Entities::delete    *)
(* and Entities::is_alive while the allocator is only borrowed shared      *)
(* (&self).  One action per atomic step of src/world/entity.rs:            *)
(*                                                                         *)
(*   create = Allocator::allocate_atomic                                   *)
(*     c_load   atomic_decrement: prev := len.load()                       *)
(*              (prev = 0 -> leave the loop, fall back to the counter)     *)
(*     c_cas    compare_exchange_weak(prev, prev-1): success -> c_read,    *)
(*              failure (lost the race, or spurious) -> prev := len, retry *)
(*              or, if that is 0, fall back to the counter                 *)
(*     c_read   id := cache[prev - 1]  (EntityCache::pop_atomic; no yield   *)
(*              point before it: the free list is constant while shared)   *)
(*     f_load / f_cas   the same loop on max_id    (atomic_increment)      *)
(*     raise    raised.add_atomic(id)                                      *)
(*     gen      read generations[id] and build the handle                  *)
(*   delete = Allocator::kill_atomic                                       *)
(*     d_chk    is_alive(e) ?                                              *)
(*     d_set    killed.add_atomic(e.id)                                    *)
(*   alive   one read step                                                 *)
(*                                                                         *)
(* During the shared phase `cache` and `generations` are constants, as     *)
(* &self guarantees.  After all programs have finished, one Merge step     *)
(* (World::maintain, exclusive) follows.  TLC enumerates every             *)
(* sequentially consistent interleaving and checks the order-free facts    *)
(* of C10.  The boundaries between the actions are exactly the yield       *)
(* points of the cfg(specs_verif) hook, so the sequence of thread ids      *)
(* along a behaviour is a schedule the harness replays on real threads.    *)
(*                                                                         *)
(* AtomicBitSet::add_atomic and the SegQueue of LazyUpdate are treated as  *)
(* atomic; weak-memory reorderings are outside the model.                  *)
(***************************************************************************)
EXTENDS Naturals, Integers, Sequences, FiniteSets, TLC, Json

CONSTANTS NT,          \* number of threads
          Progs,       \* thread -> sequence of ops: <<"create">> | <<"delete", k>> (k-th initial handle)
                       \*   | <<"delown">> (delete own last creation) | <<"aliveown">>
          InitAlive,   \* indices alive (generation 1, merged) at the start
          InitFree,    \* sequence: the free list; each index died once (generation -1)
          Spurious,    \* TRUE: compare_exchange_weak may fail spuriously
          Emit

Threads == 1..NT
MaxId0 == Cardinality(InitAlive) + Len(InitFree)
FreeSet == {InitFree[k] : k \in 1..Len(InitFree)}
\* initial handles the programs may refer to: the live ones and the stale ones
InitHandles == [k \in 1..MaxId0 |-> <<k - 1, 1>>]

Gens(i) == IF i \in InitAlive THEN 1 ELSE IF i \in FreeSet THEN 0 - 1 ELSE 0

VARIABLES clen, maxId, raised, killed, pc, prev, cur, ip, got, delok, sched

vars == <<clen, maxId, raised, killed, pc, prev, cur, ip, got, delok, sched>>

Raised(g) == 1 - g
CurGen(i) == IF Gens(i) <= 0 /\ i \in raised THEN Raised(Gens(i)) ELSE IF Gens(i) = 0 THEN 1 ELSE Gens(i)
IsAlive(e) == e[2] = CurGen(e[1])
GenFor(i) == IF Gens(i) > 0 THEN Gens(i) ELSE Raised(Gens(i))

Init ==
  /\ clen = Len(InitFree) /\ maxId = MaxId0 /\ raised = {} /\ killed = {}
  /\ pc = [t \in Threads |-> "pick"] /\ prev = [t \in Threads |-> 0] /\ cur = [t \in Threads |-> 0]
  /\ ip = [t \in Threads |-> 1]
  /\ got = [t \in Threads |-> <<>>]          \* handles returned to t, in order
  /\ delok = [t \in Threads |-> <<>>]        \* <<handle, was alive at call start, result>> per delete of t
  /\ sched = <<>>

Op(t) == Progs[t][ip[t]]
Done(t) == ip[t] > Len(Progs[t])
Go(t, l) == pc' = [pc EXCEPT ![t] = l]
Step(t) == sched' = Append(sched, t)
Finish(t) == pc' = [pc EXCEPT ![t] = "pick"] /\ ip' = [ip EXCEPT ![t] = @ + 1]

Target(t) == IF Op(t)[1] = "delown" THEN got[t][Len(got[t])] ELSE InitHandles[Op(t)[2]]

\* the first atomic step of each op is taken from "pick"
Pick(t) ==
  /\ pc[t] = "pick" /\ ~Done(t) /\ Step(t)
  /\ CASE Op(t)[1] = "create" ->          \* c_load; an empty list leaves the loop at once
            /\ prev' = [prev EXCEPT ![t] = clen] /\ Go(t, IF clen = 0 THEN "f_load" ELSE "c_cas")
            /\ UNCHANGED <<clen, maxId, raised, killed, cur, ip, got, delok>>
       [] Op(t)[1] = "aliveown" ->        \* one read; the invariant OwnAlive says what it must see
            /\ Finish(t) /\ UNCHANGED <<clen, maxId, raised, killed, prev, cur, got, delok>>
       [] OTHER ->                     \* d_chk
            /\ (Op(t)[1] = "delown" => got[t] # <<>>)
            /\ LET e == Target(t) ok == IsAlive(e) IN
                 IF ok THEN /\ Go(t, "d_set") /\ UNCHANGED <<ip, delok>>
                       ELSE /\ delok' = [delok EXCEPT ![t] = Append(@, <<e, FALSE, FALSE>>)] /\ Finish(t)
            /\ UNCHANGED <<clen, maxId, raised, killed, prev, cur, got>>

CCas(t) ==
  /\ pc[t] = "c_cas" /\ Step(t)
  /\ \/ /\ clen = prev[t] /\ clen' = prev[t] - 1 /\ Go(t, "c_read") /\ UNCHANGED prev
        \* (c_read follows without a yield point in between: the free list is constant
        \* while the allocator is shared, so reading the slot commutes with every other step;
        \* the harness replays c_cas + c_read as one grant, see SchedStep)
     \/ /\ (clen # prev[t] \/ Spurious) /\ prev' = [prev EXCEPT ![t] = clen]
        /\ (IF clen = 0 THEN Go(t, "f_load") ELSE UNCHANGED pc) /\ UNCHANGED clen
  /\ UNCHANGED <<maxId, raised, killed, cur, ip, got, delok>>

CRead(t) ==
  /\ pc[t] = "c_read" /\ UNCHANGED sched
  /\ cur' = [cur EXCEPT ![t] = InitFree[prev[t]]] /\ Go(t, "raise")
  /\ UNCHANGED <<clen, maxId, raised, killed, prev, ip, got, delok>>

FLoad(t) ==
  /\ pc[t] = "f_load" /\ Step(t)
  /\ prev' = [prev EXCEPT ![t] = maxId] /\ Go(t, "f_cas")
  /\ UNCHANGED <<clen, maxId, raised, killed, cur, ip, got, delok>>

FCas(t) ==
  /\ pc[t] = "f_cas" /\ Step(t)
  /\ \/ /\ maxId = prev[t] /\ maxId' = prev[t] + 1 /\ cur' = [cur EXCEPT ![t] = prev[t]] /\ Go(t, "raise") /\ UNCHANGED prev
     \/ /\ (maxId # prev[t] \/ Spurious) /\ prev' = [prev EXCEPT ![t] = maxId] /\ UNCHANGED <<maxId, cur, pc>>
  /\ UNCHANGED <<clen, raised, killed, ip, got, delok>>

Raise(t) ==
  /\ pc[t] = "raise" /\ Step(t)
  /\ raised' = raised \cup {cur[t]} /\ Go(t, "gen")
  /\ UNCHANGED <<clen, maxId, killed, prev, cur, ip, got, delok>>

Gen(t) ==
  /\ pc[t] = "gen" /\ Step(t)
  /\ got' = [got EXCEPT ![t] = Append(@, <<cur[t], GenFor(cur[t])>>)] /\ Finish(t)
  /\ UNCHANGED <<clen, maxId, raised, killed, prev, cur, delok>>

DSet(t) ==
  /\ pc[t] = "d_set" /\ Step(t)
  /\ killed' = killed \cup {Target(t)[1]}
  /\ delok' = [delok EXCEPT ![t] = Append(@, <<Target(t), TRUE, TRUE>>)] /\ Finish(t)
  /\ UNCHANGED <<clen, maxId, raised, prev, cur, got>>

Next ==
  /\ \E t \in Threads : Pick(t) \/ CCas(t) \/ CRead(t) \/ FLoad(t) \/ FCas(t) \/ Raise(t) \/ Gen(t) \/ DSet(t)
  /\ (Emit => PrintT(<<"SCRIPT", ToJson(sched')>>))

Spec == Init /\ [][Next]_vars

\* the schedule is history: two behaviours that differ only in it are the same state
View == <<clen, maxId, raised, killed, pc, prev, cur, ip, got, delok>>

\* ------------------------------------------------------------- properties
AllGot == UNION {{got[t][k] : k \in 1..Len(got[t])} : t \in Threads}
NGot == LET RECURSIVE S(_) S(t) == IF t > NT THEN 0 ELSE Len(got[t]) + S(t + 1) IN S(1)

\* handles pairwise distinct, and distinct from every initial live handle; no two on one index
Distinct ==
  /\ Cardinality(AllGot) = NGot
  /\ Cardinality({e[1] : e \in AllGot}) = NGot
  /\ \A e \in AllGot : e[1] \notin InitAlive

\* a returned handle is alive for everybody from the moment it is returned
OwnAlive == \A e \in AllGot : IsAlive(e)

\* a deletion request for a handle that is alive succeeds; one for a dead handle is refused
\* (aliveness cannot change during the shared phase)
DeleteFaithful ==
  \A t \in Threads : \A k \in 1..Len(delok[t]) :
     LET d == delok[t][k] IN d[3] = d[2] /\ d[2] = IsAlive(d[1])

AllDone == \A t \in Threads : Done(t)

\* after the merge: alive = initial + created - requested (only requests for live handles count)
FinalAlive ==
  AllDone =>
    LET req == UNION {{delok[t][k][1] : k \in {j \in 1..Len(delok[t]) : delok[t][j][3]}} : t \in Threads}
        want == ({<<i, 1>> : i \in InitAlive} \cup AllGot) \ req
        aliveAfter == {<<i, CurGen(i)>> : i \in (InitAlive \cup raised) \ killed}
    IN aliveAfter = want

\* the free list never hands out more than it has, the counter never skips
Bounds == clen >= 0 /\ clen <= Len(InitFree) /\ maxId >= MaxId0 /\ maxId <= MaxId0 + NGot + NT
=============================================================================
