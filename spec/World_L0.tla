----------------------------- MODULE World_L0 -----------------------------
(***************************************************************************)
(* Property-level monitor for the "world" domain of amethyst/specs.        *)
(*                                                                         *)
(* L0 = what a user may rely on (properties C01 C02 C03 C04(part) C05 C08  *)
(* C09 C17), and nothing more.  It is a *function* Step(w, ev, line) from  *)
(* an abstract world state and one logged event to the next abstract state *)
(* and a set of attributed violations.  The same function is used          *)
(*   - by World_MC.tla, fed with the events the implementation-shaped      *)
(*     model World_L1 produces (TLC checks L1 => L0 exhaustively), and     *)
(*   - by World_Trace.tla, fed with events recorded from the real code.    *)
(*                                                                         *)
(* Abstract state (record w):                                              *)
(*   issued  set of handles <<index, generation>> ever returned            *)
(*   status  handle -> "live" | "doomed" | "dead"                          *)
(*           doomed = deletion requested through shared access or builder  *)
(*           dropped unfinished; takes effect at the next maintain         *)
(*   merged  handle -> BOOLEAN (creation already merged by a maintain)     *)
(*   comp    sequence over storages of functions handle -> <<cid, val>>    *)
(*   zst     sequence over storages of BOOLEAN (zero-sized component)      *)
(*   lazyq   FIFO of queued lazy actions                                   *)
(*   peak    largest number of simultaneously not-dead handles so far      *)
(*   led     cid -> "held" | "returned" | "destroyed"   (C08 ledger)       *)
(*   zdes, zret  zero-sized values destroyed by the library / handed back  *)
(*   inm     inside World::maintain                                        *)
(*                                                                         *)
(* Freedom left where the properties leave it: which index/generation a    *)
(* creation returns (only "fresh" C01 and "below the peak" C17), the       *)
(* generation reported inside errors.  Everything else is predicted.       *)
(*                                                                         *)
(* Value encoding (chosen so TLC never compares values of different        *)
(* types): a component is <<cid, val>>, absence is <<>>, a refused         *)
(* operation is <<-1>>.                                                    *)
(***************************************************************************)
EXTENDS Naturals, Integers, Sequences, FiniteSets, TLC

Absent == <<>>
Refused == <<-1>>

Has(r, f) == f \in DOMAIN r

\* a flagged violation: property, message, printable detail (always strings,
\* so that TLC never has to compare values of different types)
F(p, m, d) == <<p, m, ToString(d)>>

Max(a, b) == IF a >= b THEN a ELSE b

W0(cfg) ==
  [ issued |-> {}, status |-> <<>>, merged |-> <<>>,
    comp   |-> [s \in 1..cfg.S |-> <<>>],
    zst    |-> [s \in 1..cfg.S |-> cfg.zst[s]],
    lazyq  |-> <<>>, peak |-> 0, led |-> <<>>, zdes |-> 0, zret |-> 0,
    inm    |-> FALSE, tid |-> cfg.tid ]

NotDead(w) == {h \in w.issued : w.status[h] # "dead"}
IsDead(w, h) == h \in w.issued /\ w.status[h] = "dead"
\* a handle the monitor has never seen is treated as dead (harness never sends one)
DeadOrUnknown(w, h) == h \notin w.issued \/ w.status[h] = "dead"

FnSet(f, k, v) == [x \in DOMAIN f \cup {k} |-> IF x = k THEN v ELSE f[x]]
FnDel(f, ks)   == [x \in DOMAIN f \ ks |-> f[x]]

LedSet(led, cid, v) == IF cid = 0 THEN led ELSE FnSet(led, cid, v)
LedSetAll(led, cids, v) ==
  [c \in DOMAIN led \cup (cids \ {0}) |-> IF c \in cids THEN v ELSE led[c]]

\* ---------------------------------------------------------------------
\* deletion taking effect for a set of handles: status dead, components
\* purged from every storage, nothing else touched               (C02, C05)
Purge(w, hs) ==
  LET gone == {w.comp[s][h][1] : <<s, h>> \in {p \in (DOMAIN w.comp) \X hs : p[2] \in DOMAIN w.comp[p[1]]}}
      nz   == Cardinality({p \in (DOMAIN w.comp) \X hs : w.zst[p[1]] /\ p[2] \in DOMAIN w.comp[p[1]]})
  IN [w EXCEPT !.status = [h \in w.issued |-> IF h \in hs THEN "dead" ELSE w.status[h]],
               !.comp   = [s \in DOMAIN w.comp |-> FnDel(w.comp[s], hs)],
               !.led    = LedSetAll(w.led, gone, "destroyed"),
               !.zdes   = w.zdes + nz]

\* ---------------------------------------------------------------------
\* plain-map semantics of one storage, restricted to live handles (C03, C04)
Cur(w, s, h) == IF ~DeadOrUnknown(w, h) /\ h \in DOMAIN w.comp[s] THEN w.comp[s][h] ELSE Absent

\* insert c for h; returns [w, res]; a dead handle refuses and the value is destroyed
DoInsert(w, s, h, c) ==
  IF DeadOrUnknown(w, h)
  THEN [w |-> [w EXCEPT !.led = LedSet(w.led, c[1], "destroyed"),
                         !.zdes = IF w.zst[s] THEN w.zdes + 1 ELSE w.zdes],
        res |-> Refused]
  ELSE LET old == Cur(w, s, h) IN
       [w |-> [w EXCEPT !.comp[s] = FnSet(w.comp[s], h, c),
                         !.led = LedSet(w.led, c[1], "held")],
        res |-> old]

\* the value handed back by an operation is dropped by whoever received it
GiveBack(w, s, v, who) ==
  IF v = Absent \/ v = Refused THEN w
  ELSE IF who = "harness"
       THEN [w EXCEPT !.led = LedSet(w.led, v[1], "returned"),
                       !.zret = IF w.zst[s] THEN w.zret + 1 ELSE w.zret]
       ELSE [w EXCEPT !.led = LedSet(w.led, v[1], "destroyed"),
                       !.zdes = IF w.zst[s] THEN w.zdes + 1 ELSE w.zdes]

DoRemove(w, s, h) ==
  LET old == Cur(w, s, h) IN
  [w |-> IF old = Absent THEN w ELSE [w EXCEPT !.comp[s] = FnDel(w.comp[s], {h})], res |-> old]

DoWrite(w, s, h, val) ==   \* mutable access that writes val (val < 0: no write)
  LET old == Cur(w, s, h) IN
  [w |-> IF old = Absent \/ val < 0 THEN w ELSE [w EXCEPT !.comp[s][h] = <<old[1], val>>], res |-> old]

\* ---------------------------------------------------------------------
\* lazy queue: actions the harness cannot observe from inside ("silent":
\* LazyUpdate::insert / insert_all / remove and LazyBuilder::with) are
\* applied by the monitor when the next observable thing happens inside
\* maintain (a logged closure or the end of maintain).                (C09)
Silent(a) == a.k # "exec"

ApplySilent(w, a) ==
  IF a.k = "ins" THEN LET r == DoInsert(w, a.s, a.h, a.c) IN GiveBack(r.w, a.s, r.res, "library")
  ELSE IF a.k = "rem" THEN LET r == DoRemove(w, a.s, a.h) IN GiveBack(r.w, a.s, r.res, "library")
  ELSE w

RECURSIVE DrainSilent(_)
DrainSilent(w) ==
  IF w.lazyq # <<>> /\ Silent(Head(w.lazyq))
  THEN DrainSilent(ApplySilent([w EXCEPT !.lazyq = Tail(w.lazyq)], Head(w.lazyq)))
  ELSE w

\* tokens captured by still-queued actions are alive inside the queue
Enqueue(w, a) ==
  [w EXCEPT !.lazyq = Append(w.lazyq, a),
            !.led = IF a.k = "ins" THEN LedSet(w.led, a.c[1], "held") ELSE w.led]

\* ---------------------------------------------------------------------
\* observation sweep                                               (all)
\* ev.obs = [hs |-> handles probed, alive |-> BOOLEAN per probed handle,
\*           walive |-> 0/1/2 per probed handle (2 = not asked),
\*           join |-> handles yielded by (&entities).join(),
\*           st |-> per storage [mask |-> indices, get |-> value per probed handle]]
SortedById(S) ==   \* sequence of the handles in S, ascending index
  LET ids == {h[1] : h \in S}
      RECURSIVE Build(_, _)
      Build(rest, acc) == IF rest = {} THEN acc
                          ELSE LET m == CHOOSE x \in rest : \A y \in rest : x <= y
                               IN Build(rest \ {m}, acc \o <<CHOOSE h \in S : h[1] = m>>)
  IN Build(ids, <<>>)

\* which property a sweep mismatch is charged to, by the kind of event
AliveProp(w, ev) == IF w.inm \/ ev.op \in {"LazyRun", "MaintainEnd"} THEN "C09" ELSE "C02"
CompProp(w, ev, h) ==
  IF ev.op \in {"LazyRun", "MaintainEnd"} \/ (w.inm /\ ev.op \notin {"SOp"}) THEN "C09"
  ELSE IF ev.op = "SOp" THEN (IF DeadOrUnknown(w, ev.h) \/ DeadOrUnknown(w, h) THEN "C03" ELSE "C04")
  ELSE IF DeadOrUnknown(w, h) THEN "C03"
  ELSE "C05"

ObsFlags(w, ev) ==
  IF ~Has(ev, "obs") THEN {}
  ELSE
  LET o == ev.obs
      n == Len(o.hs)
      nd == NotDead(w)
      aliveBad == {i \in 1..n : o.alive[i] # (~DeadOrUnknown(w, o.hs[i]))}
      wBad == {i \in 1..n : o.walive[i] # 2 /\ o.hs[i] \in w.issued /\ w.merged[o.hs[i]]
                            /\ (o.walive[i] = 1) # (w.status[o.hs[i]] # "dead")}
      joinBad == o.join # SortedById(nd)
      stBad == {<<s, i>> \in (1..Len(o.st)) \X (1..n) : o.st[s].get[i] # Cur(w, s, o.hs[i])}
      maskBad == {s \in 1..Len(o.st) :
                    {o.st[s].mask[k] : k \in 1..Len(o.st[s].mask)} # {h[1] : h \in DOMAIN w.comp[s]}
                    \/ Len(o.st[s].mask) # Cardinality(DOMAIN w.comp[s])}
  IN   {F(AliveProp(w, ev), "is_alive mismatch", o.hs[i]) : i \in aliveBad}
  \cup {F("C02", "World::is_alive mismatch", o.hs[i]) : i \in wBad}
  \cup (IF joinBad THEN {F(AliveProp(w, ev), "entities join mismatch", o.join)} ELSE {})
  \cup {F(CompProp(w, ev, o.hs[p[2]]), "component lookup mismatch", <<p[1], o.hs[p[2]], o.st[p[1]].get[p[2]]>>) : p \in stBad}
  \cup {F(CompProp(w, ev, <<-1, -1>>), "mask mismatch", s) : s \in maskBad}

\* ---------------------------------------------------------------------
\* events
Created(w, ev) ==
  LET h == ev.h
      dup == h \in w.issued \/ \E g \in NotDead(w) : g[1] = h[1]
      doomed == ev.path \in {"drop", "ebuild_drop"}
      imm == ev.path \in {"now", "iter", "drop"}
      w1 == [w EXCEPT !.issued = w.issued \cup {h},
                      !.status = FnSet(w.status, h, IF doomed THEN "doomed" ELSE "live"),
                      !.merged = FnSet(w.merged, h, imm)]
      pk == Max(w.peak, Cardinality(NotDead(w1)))
      w2 == [w1 EXCEPT !.peak = pk]
      RECURSIVE Attach(_, _)
      Attach(ww, k) ==
        IF k > Len(ev.with) THEN ww
        ELSE LET s == ev.with[k][1] c == ev.with[k][2] IN
             IF ev.path = "lazy" THEN Attach(Enqueue(ww, [k |-> "ins", s |-> s, h |-> h, c |-> c]), k + 1)
             ELSE LET r == DoInsert(ww, s, h, c) IN Attach(GiveBack(r.w, s, r.res, "library"), k + 1)
  IN [w |-> Attach(w2, 1),
      f |-> (IF dup THEN {F("C01", "handle not fresh", h)} ELSE {})
       \cup (IF h[1] >= pk THEN {F("C17", "index not below peak of simultaneously not-dead entities", <<h, pk>>)} ELSE {})]

Delete(w, ev) ==
  LET ok == ~DeadOrUnknown(w, ev.h) IN
  [w |-> IF ok THEN Purge(w, {ev.h}) ELSE w,
   f |-> IF ev.ok # ok THEN {F("C02", "delete_entity result", <<ev.h, ev.ok>>)} ELSE {}]

RECURSIVE Walk(_, _, _)
Walk(dead, hs, k) == IF k > Len(hs) THEN k
                     ELSE IF hs[k] \in dead THEN k ELSE Walk(dead \cup {hs[k]}, hs, k + 1)

DeleteBatch(w, ev) ==
  LET dead == {h \in {ev.hs[i] : i \in 1..Len(ev.hs)} : DeadOrUnknown(w, h)}
      fp == Walk(dead, ev.hs, 1)
      ok == fp > Len(ev.hs)
      pre == {ev.hs[i] : i \in 1..(fp - 1)}
  IN [w |-> Purge(w, pre),
      f |-> IF ev.ok # ok \/ (~ok /\ ev.pos # fp - 1)
            THEN {F("C02", "delete_entities result/position", <<ev.hs, ev.ok, ev.pos>>)} ELSE {}]

EDelete(w, ev) ==
  LET ok == ~DeadOrUnknown(w, ev.h) IN
  [w |-> IF ok THEN [w EXCEPT !.status[ev.h] = "doomed"] ELSE w,
   f |-> IF ev.ok # ok THEN {F("C02", "Entities::delete result", <<ev.h, ev.ok>>)} ELSE {}]

DeleteAll(w, ev) == [w |-> Purge(w, NotDead(w)), f |-> {}]

MaintainBegin(w, ev) ==
  LET w1 == Purge(w, {h \in w.issued : w.status[h] = "doomed"}) IN
  [w |-> [w1 EXCEPT !.merged = [h \in w.issued |-> TRUE], !.inm = TRUE], f |-> {}]

LazyRun(w, ev) ==
  LET w1 == DrainSilent(w)
      q == w1.lazyq
      okHead == q # <<>> /\ Head(q).k = "exec" /\ Head(q).id = ev.id
      pos == {i \in 1..Len(q) : q[i].k = "exec" /\ q[i].id = ev.id}
      q2 == IF okHead THEN Tail(q)
            ELSE IF pos = {} THEN q
            ELSE LET p == CHOOSE i \in pos : \A j \in pos : i <= j IN SubSeq(q, 1, p - 1) \o SubSeq(q, p + 1, Len(q))
  IN [w |-> [w1 EXCEPT !.lazyq = q2],
      f |-> (IF ~okHead THEN {F("C09", "lazy action ran out of order / twice / unqueued", ev.id)} ELSE {})
       \cup (IF ~w.inm THEN {F("C09", "lazy action ran outside maintain", ev.id)} ELSE {})]

MaintainEnd(w, ev) ==
  LET w1 == DrainSilent(w) IN
  [w |-> [w1 EXCEPT !.inm = FALSE],
   f |-> IF w1.lazyq # <<>> THEN {F("C09", "queued lazy actions left over after maintain", Len(w1.lazyq))} ELSE {}]

LazyQueue(w, ev) ==
  LET RECURSIVE Items(_, _)
      Items(ww, k) == IF k > Len(ev.items) THEN ww
                      ELSE Items(Enqueue(ww, [k |-> "ins", s |-> ev.s, h |-> ev.items[k][1], c |-> ev.items[k][2]]), k + 1)
  IN [w |-> CASE ev.k = "ins"    -> Enqueue(w, [k |-> "ins", s |-> ev.s, h |-> ev.h, c |-> ev.c])
              [] ev.k = "insall" -> Items(w, 1)
              [] ev.k = "rem"    -> Enqueue(w, [k |-> "rem", s |-> ev.s, h |-> ev.h])
              [] ev.k = "exec"   -> Enqueue(w, [k |-> "exec", id |-> ev.id]),
      f |-> {}]

\* storage operation through a handle.  ev.cls:
\*   "read"    get / contains / lending get / restricted get_other / entry get
\*   "write"   get_mut & friends, writes ev.val (or -1 for no write)
\*   "insert"  insert / entry replace              (ev.c)
\*   "orins"   entry().or_insert(ev.c)
\*   "remove"  remove / occupied-entry remove
\*   "gmod"    get_mut_or_default, then writes ev.val
\* ev.res is what the real call reported, in the value encoding above;
\* for "read" via contains the harness reports <<0,0>>-free booleans as
\* ev.b instead of ev.res.
SOp(w, ev) ==
  LET s == ev.s  h == ev.h
      prop == IF DeadOrUnknown(w, h) THEN "C03" ELSE "C04"
      \* ress: the same lookup asked from every item of a restricted join (all must
      \* agree with the map); ress_w: same for a writing lookup - the first answer is
      \* the old value, later ones carry the value just written
      bad(exp) == IF Has(ev, "b") THEN ev.b # (exp # Absent)
                  ELSE \/ ev.res # exp
                       \/ Has(ev, "ress") /\ \E i \in 1..Len(ev.ress) : ev.ress[i] # exp
                       \/ Has(ev, "ress_w") /\ \E i \in 2..Len(ev.ress_w) :
                             ev.ress_w[i] # (IF exp = Absent \/ ev.val < 0 THEN exp ELSE <<exp[1], ev.val>>)
      mk(w2, exp) == [w |-> w2, f |-> IF bad(exp) THEN {F(prop, "storage op result", <<ev.cls, ev.path, s, h, exp>>)} ELSE {}]
  IN CASE ev.cls = "read"   -> mk(w, Cur(w, s, h))
       [] ev.cls = "write"  -> LET r == DoWrite(w, s, h, ev.val) IN mk(r.w, r.res)
       [] ev.cls = "insert" ->
            \* the entry API refuses a dead handle before taking the value: the
            \* caller keeps it; Storage::insert consumes (and destroys) it
            IF DeadOrUnknown(w, h) /\ ev.path \in {"entry_replace", "entry_insert"}
            THEN mk(GiveBack(w, s, ev.c, "harness"), Refused)
            ELSE LET r == DoInsert(w, s, h, ev.c) IN mk(GiveBack(r.w, s, r.res, "harness"), r.res)
       [] ev.cls = "orins"  ->
            IF DeadOrUnknown(w, h) THEN mk(GiveBack(w, s, ev.c, "harness"), Refused)
            ELSE LET old == Cur(w, s, h) IN
                 IF old = Absent THEN LET r == DoInsert(w, s, h, ev.c) IN mk(r.w, ev.c)
                 ELSE mk(GiveBack(w, s, ev.c, "library"), old)
       [] ev.cls = "remove" -> LET r == DoRemove(w, s, h) IN mk(GiveBack(r.w, s, r.res, "harness"), r.res)
       [] ev.cls = "gmod"   ->
            IF DeadOrUnknown(w, h) THEN mk(w, Absent)
            ELSE LET old == Cur(w, s, h)
                     w1 == IF old = Absent THEN [w EXCEPT !.comp[s] = FnSet(w.comp[s], h, <<0, 0>>)] ELSE w
                     r == DoWrite(w1, s, h, ev.val)
                 IN mk(r.w, r.res)

\* end of a world: everything still held (in storages or in the lazy
\* queue) is destroyed exactly once; compare with the instrumented ledger
DropWorld(w, ev) ==
  LET L == ev.ledger
      held == {c \in DOMAIN w.led : w.led[c] = "held"}
      des == {c \in DOMAIN w.led : w.led[c] = "destroyed"} \cup held
      ret == {c \in DOMAIN w.led : w.led[c] = "returned"}
      nzheld == Cardinality({p \in (DOMAIN w.comp) \X w.issued : w.zst[p[1]] /\ p[2] \in DOMAIN w.comp[p[1]]})
      toSet(q) == {q[i] : i \in 1..Len(q)}
  IN [w |-> w,
      f |-> (IF toSet(L.destroyed) # des THEN {F("C08", "destroyed set differs", <<(toSet(L.destroyed) \ des), (des \ toSet(L.destroyed))>>)} ELSE {})
       \cup (IF toSet(L.returned) # ret THEN {F("C08", "returned set differs", <<(toSet(L.returned) \ ret), (ret \ toSet(L.returned))>>)} ELSE {})
       \cup (IF L.held # <<>> THEN {F("C08", "values leaked (still held after the world was dropped)", L.held)} ELSE {})
       \cup (IF L.anomalies # <<>> THEN {F("C08", "double drop / drop of unknown value", L.anomalies)} ELSE {})
       \cup (IF L.zlib # w.zdes + nzheld \/ L.zharn # w.zret THEN {F("C08", "zero-sized component drop count", <<L.zlib, w.zdes + nzheld, L.zharn, w.zret>>)} ELSE {})]

\* a panic escaping library code where none is allowed
PanicProp(ev) ==
  CASE ev.in \in {"Created"} -> "C01"
    [] ev.in \in {"Delete", "DeleteBatch", "EDelete", "DeleteAll"} -> "C02"
    [] ev.in \in {"MaintainBegin", "MaintainEnd", "LazyRun", "LazyQueue"} -> "C09"
    [] ev.in \in {"SOp"} -> "C04"
    [] ev.in \in {"DropWorld"} -> "C08"
    [] OTHER -> "C02"

Panic(w, ev) == [w |-> w, f |-> {F(PanicProp(ev), "panic escaped from library code", <<ev.in, ev.msg>>)}]

Dispatch(w, ev) ==
  CASE ev.op = "Created"       -> Created(w, ev)
    [] ev.op = "Delete"        -> Delete(w, ev)
    [] ev.op = "DeleteBatch"   -> DeleteBatch(w, ev)
    [] ev.op = "EDelete"       -> EDelete(w, ev)
    [] ev.op = "DeleteAll"     -> DeleteAll(w, ev)
    [] ev.op = "MaintainBegin" -> MaintainBegin(w, ev)
    [] ev.op = "LazyRun"       -> LazyRun(w, ev)
    [] ev.op = "MaintainEnd"   -> MaintainEnd(w, ev)
    [] ev.op = "LazyQueue"     -> LazyQueue(w, ev)
    [] ev.op = "SOp"           -> SOp(w, ev)
    [] ev.op = "DropWorld"     -> DropWorld(w, ev)
    [] ev.op = "Panic"         -> Panic(w, ev)
    [] ev.op = "Nop"           -> [w |-> w, f |-> {}]

\* Step: returns [w, f] with f a set of [p, m, d] records
Step(w, ev) ==
  IF ev.op = "Reset" THEN [w |-> W0(ev.cfg), f |-> {}]
  ELSE LET r == Dispatch(w, ev)
           of == ObsFlags(r.w, ev)
       IN [w |-> r.w, f |-> r.f \cup of]
=============================================================================
