----------------------------- MODULE World_L0 -----------------------------
(***************************************************************************)
(* Property-level monitor for a specs World: entities, component storages  *)
(* (all kinds, change-tracking wrappers, restricted views), lazy updates.  *)
(*                                                                         *)
(* L0 = what a user may rely on (properties C01 C02 C03 C04 C05 C08 C09    *)
(* C12 C13 C17 and the world part of C19), and nothing more.  It is a      *)
(* *function* Step(w, ev) from an abstract world state and one logged      *)
(* event to the next abstract state and a set of attributed violations.    *)
(* The same function is used                                               *)
(*   - by World_MC / Store_MC, fed with the events the implementation-     *)
(*     shaped models produce (TLC checks L1 => L0 exhaustively), and       *)
(*   - by World_Trace, fed with events recorded from the real code.        *)
(*                                                                         *)
(* Abstract state (record w):                                              *)
(*   issued  set of handles <<index, generation>> ever returned            *)
(*   status  handle -> "live" | "doomed" | "dead"                          *)
(*           doomed = deletion requested through shared access or builder  *)
(*           dropped unfinished; takes effect at the next maintain         *)
(*   merged  handle -> BOOLEAN (creation already merged by a maintain)     *)
(*   comp    sequence over storages of functions handle -> <<cid, val>>    *)
(*   zst     per storage: zero-sized component                             *)
(*   trk     per storage: "none" | "flagged" | "deref" (change tracking)   *)
(*   emit    per storage: event emission switched on                       *)
(*   evq     per storage: events expected since the reader last read,      *)
(*           each <<kind, index, optional>> with kind "I" | "M" | "R"      *)
(*   lazyq   FIFO of queued lazy actions                                   *)
(*   mdoom   the maintain in progress had deferred deletions to apply      *)
(*   peak    largest number of simultaneously not-dead handles so far      *)
(*   led     cid -> "held" | "returned" | "destroyed"   (C08 ledger)       *)
(*   zdes, zret  zero-sized values destroyed by the library / handed back  *)
(*   inm     nesting depth of World::maintain (a lazy action may call it)  *)
(*   fault   a destructor has panicked in this world (C19): from then on   *)
(*           leaks are allowed, double drops and stale reads are not       *)
(*   resid   per storage: indices whose mask bit survived an interrupted   *)
(*           purge of a dead entity (leaked, not destroyed: allowed)       *)
(*                                                                         *)
(* Freedom left where the properties leave it: which index/generation a    *)
(* creation returns (only "fresh" C01 and "below the peak" C17), the       *)
(* generation reported inside errors, the Modified event that directly     *)
(* follows the Inserted event of one vacant-entry insertion on             *)
(* FlaggedStorage (optional), what is leaked after a destructor panic.     *)
(*                                                                         *)
(* Value encoding (chosen so TLC never compares values of different        *)
(* types): a component is <<cid, val>>, absence is <<>>, a refused         *)
(* operation is <<-1>>.                                                    *)
(***************************************************************************)
EXTENDS Naturals, Integers, Sequences, FiniteSets, TLC

Absent == <<>>
Refused == <<-1>>

Has(r, f) == f \in DOMAIN r

\* a flagged violation: property, message, printable detail (always strings,
\* so that TLC never has to compare values of different types)
F(p, m, d) == <<p, m, ToString(d)>>

Max(a, b) == IF a >= b THEN a ELSE b

W0(cfg) ==
  [ issued |-> {}, status |-> <<>>, merged |-> <<>>,
    comp   |-> [s \in 1..cfg.S |-> <<>>],
    zst    |-> [s \in 1..cfg.S |-> cfg.zst[s]],
    trk    |-> [s \in 1..cfg.S |-> IF Has(cfg, "trk") THEN cfg.trk[s] ELSE "none"],
    emit   |-> [s \in 1..cfg.S |-> TRUE],
    evq    |-> [s \in 1..cfg.S |-> <<>>],
    resid  |-> [s \in 1..cfg.S |-> {}],
    lazyq  |-> <<>>, mdoom |-> FALSE, peak |-> 0, led |-> <<>>, zdes |-> 0, zret |-> 0,
    inm    |-> 0, fault |-> FALSE, tid |-> cfg.tid ]

NotDead(w) == {h \in w.issued : w.status[h] # "dead"}
\* a handle the monitor has never seen is treated as dead (harness never sends one)
DeadOrUnknown(w, h) == h \notin w.issued \/ w.status[h] = "dead"

FnSet(f, k, v) == [x \in DOMAIN f \cup {k} |-> IF x = k THEN v ELSE f[x]]
FnDel(f, ks)   == [x \in DOMAIN f \ ks |-> f[x]]

LedSet(led, cid, v) == IF cid = 0 THEN led ELSE FnSet(led, cid, v)
LedSetAll(led, cids, v) ==
  [c \in DOMAIN led \cup (cids \ {0}) |-> IF c \in cids THEN v ELSE led[c]]

SeqToSet(q) == {q[i] : i \in 1..Len(q)}

SortedById(S) ==   \* sequence of the handles in S, ascending index
  LET ids == {h[1] : h \in S}
      RECURSIVE Build(_, _)
      Build(rest, acc) == IF rest = {} THEN acc
                          ELSE LET m == CHOOSE x \in rest : \A y \in rest : x <= y
                               IN Build(rest \ {m}, acc \o <<CHOOSE h \in S : h[1] = m>>)
  IN Build(ids, <<>>)

\* ---------------------------------------------------------------------
\* change tracking (C12): expected events of storage s
Ev1(w, s, k, id, opt) ==
  IF w.trk[s] = "none" \/ ~w.emit[s] THEN w
  ELSE [w EXCEPT !.evq[s] = Append(@, <<k, id, opt>>)]

\* mutable access to a present component: FlaggedStorage reports it when the
\* access is handed out, DerefFlaggedStorage when it is dereferenced mutably
EvMut(w, s, id, written) ==
  IF w.trk[s] = "flagged" \/ (w.trk[s] = "deref" /\ written) THEN Ev1(w, s, "M", id, FALSE) ELSE w

\* ---------------------------------------------------------------------
\* deletion taking effect for a sequence of handles (in that order):
\* status dead, components purged from every storage with one Removed
\* event each, nothing else touched                           (C02, C05, C12)
Purge(w, hq) ==
  LET hs == SeqToSet(hq)
      pairs == {p \in (DOMAIN w.comp) \X hs : p[2] \in DOMAIN w.comp[p[1]]}
      gone == {w.comp[p[1]][p[2]][1] : p \in pairs}
      nz   == Cardinality({p \in pairs : w.zst[p[1]]})
      evs(s) == LET RECURSIVE E(_) E(k) == IF k > Len(hq) THEN <<>>
                                           ELSE (IF hq[k] \in DOMAIN w.comp[s] THEN <<<<"R", hq[k][1], FALSE>>>> ELSE <<>>) \o E(k + 1)
                IN IF w.trk[s] = "none" \/ ~w.emit[s] THEN <<>> ELSE E(1)
  IN [w EXCEPT !.status = [h \in w.issued |-> IF h \in hs THEN "dead" ELSE w.status[h]],
               !.comp   = [s \in DOMAIN w.comp |-> FnDel(w.comp[s], hs)],
               !.evq    = [s \in DOMAIN w.comp |-> w.evq[s] \o evs(s)],
               !.led    = LedSetAll(w.led, gone, "destroyed"),
               !.zdes   = w.zdes + nz]

\* ---------------------------------------------------------------------
\* plain-map semantics of one storage, restricted to live handles (C03, C04)
Cur(w, s, h) == IF ~DeadOrUnknown(w, h) /\ h \in DOMAIN w.comp[s] THEN w.comp[s][h] ELSE Absent

\* Storage::insert c for h; returns [w, res]; a dead handle refuses and the value
\* is destroyed; overwriting swaps through a mutable access (Modified)
DoInsert(w, s, h, c) ==
  IF DeadOrUnknown(w, h)
  THEN [w |-> [w EXCEPT !.led = LedSet(w.led, c[1], "destroyed"),
                         !.zdes = IF w.zst[s] THEN w.zdes + 1 ELSE w.zdes],
        res |-> Refused]
  ELSE LET old == Cur(w, s, h)
           w1 == [w EXCEPT !.comp[s] = FnSet(w.comp[s], h, c), !.led = LedSet(w.led, c[1], "held")]
       IN [w |-> IF old = Absent THEN Ev1(w1, s, "I", h[1], FALSE) ELSE Ev1(w1, s, "M", h[1], FALSE),
           res |-> old]

\* the value handed back by an operation is dropped by whoever received it
GiveBack(w, s, v, who) ==
  IF v = Absent \/ v = Refused THEN w
  ELSE IF who = "harness"
       THEN [w EXCEPT !.led = LedSet(w.led, v[1], "returned"),
                       !.zret = IF w.zst[s] THEN w.zret + 1 ELSE w.zret]
       ELSE [w EXCEPT !.led = LedSet(w.led, v[1], "destroyed"),
                       !.zdes = IF w.zst[s] THEN w.zdes + 1 ELSE w.zdes]

DoRemove(w, s, h) ==
  LET old == Cur(w, s, h) IN
  [w |-> IF old = Absent THEN w ELSE Ev1([w EXCEPT !.comp[s] = FnDel(w.comp[s], {h})], s, "R", h[1], FALSE),
   res |-> old]

\* n mutable accesses to h's component, writing val (val < 0: no write)
RECURSIVE EvMutN(_, _, _, _, _)
EvMutN(w, s, id, written, n) == IF n = 0 THEN w ELSE EvMutN(EvMut(w, s, id, written), s, id, written, n - 1)

DoWriteN(w, s, h, val, n) ==
  LET old == Cur(w, s, h) IN
  [w |-> IF old = Absent THEN w
         ELSE EvMutN(IF val < 0 THEN w ELSE [w EXCEPT !.comp[s][h] = <<old[1], val>>], s, h[1], val >= 0, n),
   res |-> old]

DoWrite(w, s, h, val) == DoWriteN(w, s, h, val, 1)

\* ---------------------------------------------------------------------
\* lazy queue: actions the harness cannot observe from inside ("silent":
\* LazyUpdate::insert / insert_all / remove and LazyBuilder::with) are
\* applied by the monitor when the next observable thing happens inside
\* maintain (a logged closure or the end of maintain).                (C09)
Silent(a) == a.k # "exec"

ApplySilent(w, a) ==
  IF a.k = "ins" THEN LET r == DoInsert(w, a.s, a.h, a.c) IN GiveBack(r.w, a.s, r.res, "library")
  ELSE IF a.k = "rem" THEN LET r == DoRemove(w, a.s, a.h) IN GiveBack(r.w, a.s, r.res, "library")
  ELSE w

RECURSIVE DrainSilent(_)
DrainSilent(w) ==
  IF w.lazyq # <<>> /\ Silent(Head(w.lazyq))
  THEN DrainSilent(ApplySilent([w EXCEPT !.lazyq = Tail(w.lazyq)], Head(w.lazyq)))
  ELSE w

\* tokens captured by still-queued actions are alive inside the queue
Enqueue(w, a) ==
  [w EXCEPT !.lazyq = Append(w.lazyq, a),
            !.led = IF a.k = "ins" THEN LedSet(w.led, a.c[1], "held") ELSE w.led]

\* ---------------------------------------------------------------------
\* observation sweep                                               (all)
\* ev.obs = [hs |-> handles probed, alive |-> BOOLEAN per probed handle,
\*           walive |-> 0/1/2 per probed handle (2 = not asked),
\*           join |-> handles yielded by (&entities).join(),
\*           st |-> per storage [mask |-> indices, get |-> value per probed handle,
\*                               evs |-> events the registered reader received]]

\* which property a sweep mismatch is charged to, by the kind of event
AliveProp(w, ev) == IF w.inm > 0 \/ ev.op \in {"LazyRun", "MaintainEnd"} THEN "C09" ELSE "C02"
CompProp(w, ev, h) ==
  IF w.fault \/ ev.op = "Fault" THEN "C19"
  ELSE IF ev.op \in {"LazyRun", "MaintainEnd"} \/ (w.inm > 0 /\ ev.op \notin {"SOp", "WOp"}) THEN "C09"
  ELSE IF ev.op = "SOp" THEN (IF DeadOrUnknown(w, ev.h) \/ DeadOrUnknown(w, h) THEN "C03" ELSE "C04")
  ELSE IF ev.op = "WOp" THEN (IF ev.k \in {"restrict"} THEN "C13" ELSE "C04")
  ELSE IF DeadOrUnknown(w, h) THEN "C03"
  ELSE "C05"

\* expected events (with optional ones) against the events actually received
RECURSIVE EvMatch(_, _)
EvMatch(exp, act) ==
  IF exp = <<>> THEN act = <<>>
  ELSE LET e == Head(exp) IN
       \/ (act # <<>> /\ Head(act)[1] = e[1] /\ Head(act)[2] = e[2] /\ EvMatch(Tail(exp), Tail(act)))
       \/ (e[3] /\ EvMatch(Tail(exp), act))

ObsFlags(w, ev) ==
  IF ~Has(ev, "obs") THEN {}
  ELSE
  LET o == ev.obs
      n == Len(o.hs)
      nd == NotDead(w)
      aliveBad == {i \in 1..n : o.alive[i] # (~DeadOrUnknown(w, o.hs[i]))}
      wBad == {i \in 1..n : o.walive[i] # 2 /\ o.hs[i] \in w.issued /\ w.merged[o.hs[i]]
                            /\ (o.walive[i] = 1) # (w.status[o.hs[i]] # "dead")}
      joinBad == o.join # SortedById(nd) \/ (Has(o, "joinl") /\ o.joinl # SortedById(nd))
                 \/ (Has(o, "joinp") /\ o.joinp # SortedById(nd))
      stBad == {p \in (1..Len(o.st)) \X (1..n) : o.st[p[1]].get[p[2]] # Cur(w, p[1], o.hs[p[2]])}
      maskBad == {s \in 1..Len(o.st) :
                    (SeqToSet(o.st[s].mask) \ w.resid[s]) # {h[1] : h \in DOMAIN w.comp[s]}
                    \/ Len(o.st[s].mask) # Cardinality(SeqToSet(o.st[s].mask))}
      \* aliveness as seen through the entities resource a storage fetched
      feBad == {s \in 1..Len(o.st) : Has(o.st[s], "ealive") /\ o.st[s].ealive # o.alive}
      evBad == IF ev.op = "Fault" THEN {}
               ELSE {s \in 1..Len(o.st) : Has(o.st[s], "evs") /\ ~EvMatch(w.evq[s], o.st[s].evs)}
  IN   {F(AliveProp(w, ev), "is_alive mismatch", o.hs[i]) : i \in aliveBad}
  \cup {F("C02", "World::is_alive mismatch", o.hs[i]) : i \in wBad}
  \cup (IF joinBad THEN {F(AliveProp(w, ev), "entities join mismatch (join, lending join, parallel join)", <<o.join, IF Has(o, "joinl") THEN o.joinl ELSE <<>>, IF Has(o, "joinp") THEN o.joinp ELSE <<>>>>)} ELSE {})
  \cup {F(CompProp(w, ev, o.hs[p[2]]), "component lookup mismatch", <<p[1], o.hs[p[2]], o.st[p[1]].get[p[2]]>>) : p \in stBad}
  \* a lookup that yields a value the library has already destroyed or handed back breaks "exactly once" too
  \cup {F(IF w.fault THEN "C19" ELSE "C08", "a lookup returns a value that was already destroyed / handed back", <<p[1], o.hs[p[2]], o.st[p[1]].get[p[2]]>>)
          : p \in {q \in stBad : o.st[q[1]].get[q[2]] # <<>> /\ o.st[q[1]].get[q[2]][1] # 0
                                  /\ o.st[q[1]].get[q[2]][1] \in DOMAIN w.led /\ w.led[o.st[q[1]].get[q[2]][1]] # "held"}}
  \cup {F(CompProp(w, ev, <<-1, -1>>), "mask mismatch", s) : s \in maskBad}
  \cup {F(AliveProp(w, ev), "is_alive through a storage's fetched entities differs from Entities::is_alive", s) : s \in feBad}
  \cup {F("C12", "event stream mismatch (storage, expected, received)", <<s, w.evq[s], o.st[s].evs>>) : s \in evBad}
  \cup (IF evBad # {} /\ ((ev.op = "WOp" /\ ev.k = "restrict") \/ (ev.op = "SOp" /\ ev.path \in {"r_get_other", "rl_get_other", "rm_get_other", "rm_get_other_mut", "rm_get_other_mut_replace"}))
        THEN {F("C13", "events after an operation on a restricted storage (storage, expected, received)", <<s, w.evq[s], o.st[s].evs>>) : s \in evBad} ELSE {})

\* after a sweep that read the event channels, the expectations start afresh
AfterObs(w, ev) ==
  IF ~Has(ev, "obs") THEN w
  ELSE [w EXCEPT !.evq = [s \in DOMAIN w.evq |-> IF s <= Len(ev.obs.st) /\ Has(ev.obs.st[s], "evs") THEN <<>> ELSE w.evq[s]]]

\* ---------------------------------------------------------------------
\* events
Created(w, ev) ==
  LET h == ev.h
      dup == h \in w.issued \/ \E g \in NotDead(w) : g[1] = h[1]
      doomed == ev.path \in {"drop", "ebuild_drop"}
      imm == ev.path \in {"now", "iter", "drop"}
      w1 == [w EXCEPT !.issued = w.issued \cup {h},
                      !.status = FnSet(w.status, h, IF doomed THEN "doomed" ELSE "live"),
                      !.merged = FnSet(w.merged, h, imm)]
      pk == Max(w.peak, Cardinality(NotDead(w1)))
      w2 == [w1 EXCEPT !.peak = pk]
      RECURSIVE Attach(_, _)
      Attach(ww, k) ==
        IF k > Len(ev.with) THEN ww
        ELSE LET s == ev.with[k][1] c == ev.with[k][2] IN
             IF ev.path = "lazy" THEN Attach(Enqueue(ww, [k |-> "ins", s |-> s, h |-> h, c |-> c]), k + 1)
             ELSE LET r == DoInsert(ww, s, h, c) IN Attach(GiveBack(r.w, s, r.res, "library"), k + 1)
  IN [w |-> Attach(w2, 1),
      f |-> (IF dup THEN {F("C01", "handle not fresh", h)} ELSE {})
       \cup (IF h[1] >= pk THEN {F("C17", "index not below peak of simultaneously not-dead entities", <<h, pk>>)} ELSE {})]

\* a block of n entities created at once of which only ev.hs are kept (the
\* others are deleted again before anything else happens); used to obtain live
\* entities at far-apart indices
Prealloc(w, ev) ==
  LET hs == SeqToSet(ev.hs)
      dup == \E h \in hs : h \in w.issued \/ \E g \in NotDead(w) : g[1] = h[1]
      w1 == [w EXCEPT !.issued = w.issued \cup hs,
                      !.status = [h \in w.issued \cup hs |-> IF h \in hs THEN "live" ELSE w.status[h]],
                      !.merged = [h \in w.issued \cup hs |-> IF h \in hs THEN TRUE ELSE w.merged[h]]]
  IN [w |-> [w1 EXCEPT !.peak = Max(w.peak, Cardinality(NotDead(w)) + ev.n)],
      f |-> (IF dup THEN {F("C01", "handle not fresh", ev.hs)} ELSE {})
            \cup (IF "ok" \in DOMAIN ev /\ ~ev.ok THEN {F("C02", "batch deletion of entities that are all alive failed", ev.n)} ELSE {})]

Delete(w, ev) ==
  LET ok == ~DeadOrUnknown(w, ev.h) IN
  [w |-> IF ok THEN Purge(w, <<ev.h>>) ELSE w,
   f |-> IF ev.ok # ok THEN {F("C02", "delete_entity result", <<ev.h, ev.ok>>)} ELSE {}]

RECURSIVE Walk(_, _, _)
Walk(dead, hs, k) == IF k > Len(hs) THEN k
                     ELSE IF hs[k] \in dead THEN k ELSE Walk(dead \cup {hs[k]}, hs, k + 1)

DeleteBatch(w, ev) ==
  LET dead == {h \in SeqToSet(ev.hs) : DeadOrUnknown(w, h)}
      fp == Walk(dead, ev.hs, 1)
      ok == fp > Len(ev.hs)
  IN [w |-> Purge(w, SubSeq(ev.hs, 1, fp - 1)),
      f |-> IF ev.ok # ok \/ (~ok /\ ev.pos # fp - 1)
            THEN {F("C02", "delete_entities result/position", <<ev.hs, ev.ok, ev.pos>>)} ELSE {}]

EDelete(w, ev) ==
  LET ok == ~DeadOrUnknown(w, ev.h) IN
  [w |-> IF ok THEN [w EXCEPT !.status[ev.h] = "doomed"] ELSE w,
   f |-> IF ev.ok # ok THEN {F("C02", "Entities::delete result", <<ev.h, ev.ok>>)} ELSE {}]

DeleteAll(w, ev) == [w |-> Purge(w, SortedById(NotDead(w))), f |-> {}]

MaintainBegin(w, ev) ==
  LET w1 == Purge(w, SortedById({h \in w.issued : w.status[h] = "doomed"})) IN
  [w |-> [w1 EXCEPT !.merged = [h \in w.issued |-> TRUE], !.inm = @ + 1,
                    !.mdoom = \E h \in w.issued : w.status[h] = "doomed"], f |-> {}]

LazyRun(w, ev) ==
  LET w1 == DrainSilent(w)
      q == w1.lazyq
      okHead == q # <<>> /\ Head(q).k = "exec" /\ Head(q).id = ev.id
      pos == {i \in 1..Len(q) : q[i].k = "exec" /\ q[i].id = ev.id}
      q2 == IF okHead THEN Tail(q)
            ELSE IF pos = {} THEN q
            ELSE LET p == CHOOSE i \in pos : \A j \in pos : i <= j IN SubSeq(q, 1, p - 1) \o SubSeq(q, p + 1, Len(q))
  IN [w |-> [w1 EXCEPT !.lazyq = q2],
      f |-> (IF ~okHead THEN {F("C09", "lazy action ran out of order / twice / unqueued", ev.id)} ELSE {})
       \cup (IF w.inm = 0 THEN {F("C09", "lazy action ran outside maintain", ev.id)} ELSE {})]

MaintainEnd(w, ev) ==
  LET w1 == DrainSilent(w) IN
  [w |-> [w1 EXCEPT !.inm = IF @ > 0 THEN @ - 1 ELSE 0],
   f |-> IF w1.lazyq # <<>> THEN {F("C09", "queued lazy actions left over after maintain", Len(w1.lazyq))} ELSE {}]

LazyQueue(w, ev) ==
  LET RECURSIVE Items(_, _)
      Items(ww, k) == IF k > Len(ev.items) THEN ww
                      ELSE Items(Enqueue(ww, [k |-> "ins", s |-> ev.s, h |-> ev.items[k][1], c |-> ev.items[k][2]]), k + 1)
  IN [w |-> CASE ev.k = "ins"    -> Enqueue(w, [k |-> "ins", s |-> ev.s, h |-> ev.h, c |-> ev.c])
              [] ev.k = "insall" -> Items(w, 1)
              [] ev.k = "rem"    -> Enqueue(w, [k |-> "rem", s |-> ev.s, h |-> ev.h])
              [] ev.k = "exec"   -> Enqueue(w, [k |-> "exec", id |-> ev.id]),
      f |-> {}]

\* storage operation through a handle.  ev.cls:
\*   "read"    get / contains / lending get / restricted get_other / entry get
\*   "write"   get_mut & friends, writes ev.val (or -1 for no write)
\*   "insert"  insert / entry replace / occupied+vacant entry insert   (ev.c)
\*   "orins"   entry().or_insert(ev.c)
\*   "remove"  remove / occupied-entry remove
\*   "gmod"    get_mut_or_default, then writes ev.val
\* ev.res is what the real call reported, in the value encoding above; for
\* contains the harness reports the boolean ev.b instead.
SOp(w, ev) ==
  LET s == ev.s  h == ev.h
      prop == IF DeadOrUnknown(w, h) THEN "C03" ELSE "C04"
      \* ress: the same lookup asked from every item of a restricted join (all must
      \* agree with the map); ress_w: same for a writing lookup - the first answer is
      \* the old value, later ones carry the value just written
      bad(exp) == IF Has(ev, "b") THEN ev.b # (exp # Absent)
                  ELSE \/ ev.res # exp
                       \/ Has(ev, "ress") /\ \E i \in 1..Len(ev.ress) : ev.ress[i] # exp
                       \/ Has(ev, "ress_w") /\ \E i \in 2..Len(ev.ress_w) :
                             ev.ress_w[i] # (IF exp = Absent \/ ev.val < 0 THEN exp ELSE <<exp[1], ev.val>>)
                       \* ress2: a refused handle asked again from the same item after the item accepted
                       \* the live entity of the same index (ev.pre_h) - still refused
                       \/ Has(ev, "ress2") /\ \E i \in 1..Len(ev.ress2) : ev.ress2[i] # Absent
      \* the lending join's lookup by entity is also part of C06, restricted lookups of C13
      \* (the items of a join over a restricted storage are join items: what is reached through one, and what a
      \* mutation through one changes, is part of C06 too)
      props == {prop} \cup (IF ev.path \in {"lend_get", "lend2_get", "lend_get_mut", "lentry_get", "lmaybe_get",
                                             "r_get_other", "rl_get_other", "rm_get_other", "rm_get_other_mut", "rm_get_other_mut_replace"} THEN {"C06"} ELSE {})
                      \cup (IF ev.path \in {"r_get_other", "rl_get_other", "rm_get_other", "rm_get_other_mut", "rm_get_other_mut_replace"} THEN {"C13"} ELSE {})
      \* owns (restricted lending items asked for another entity): what the item itself carries before and after
      \* the lookup, and whether the other entity is the item's own - if it is not, the item still carries its own
      ownBad == IF Has(ev, "owns") THEN {i \in 1..Len(ev.owns) : ~ev.owns[i][3] /\ ev.owns[i][1] # ev.owns[i][2]} ELSE {}
      mk(w2, exp) == [w |-> w2, f |-> (IF bad(exp) THEN {F(p, "storage op result", <<ev.cls, ev.path, s, h, exp>>) : p \in props} ELSE {})
                                      \cup (IF ownBad # {} THEN {F(p, "an item of a restricted join carries another component after looking up another entity (positions)", ownBad) : p \in props} ELSE {})]
      viaEntry == ev.path \in {"entry_replace", "entry_insert"}
  IN CASE ev.cls = "read"   -> mk(w, Cur(w, s, h))
       [] ev.cls = "write"  ->
            LET r == DoWriteN(w, s, h, ev.val, IF Has(ev, "ress_w") THEN Len(ev.ress_w) ELSE 1) IN
            IF Has(ev, "pre_h")
            THEN \* between two lookups of the refused h, the same items fetched the live entity ev.pre_h mutably
                 \* (no write): each fetch is a mutable access of its own
                 LET ph == <<ev.pre_h[1], ev.pre_h[2]>>
                     p == DoWriteN(r.w, s, ph, -1, Len(ev.pre_ress))
                     preBad == {i \in 1..Len(ev.pre_ress) : ev.pre_ress[i] # p.res}
                     m == mk(p.w, r.res)
                 IN [w |-> m.w, f |-> m.f \cup (IF preBad # {} THEN {F(q, "lookup of the live entity through an item that refused a stale handle of its index (handle, expected, positions)", <<ph, p.res, preBad>>) : q \in props} ELSE {})]
            ELSE mk(r.w, r.res)
       [] ev.cls = "insert" ->
            \* the entry API refuses a dead handle before taking the value: the
            \* caller keeps it; Storage::insert consumes (and destroys) it
            IF DeadOrUnknown(w, h) /\ viaEntry THEN mk(GiveBack(w, s, ev.c, "harness"), Refused)
            ELSE IF viaEntry /\ Cur(w, s, h) = Absent
            THEN \* VacantEntry::insert: inserts, then hands the fresh value back mutably
                 LET r == DoInsert(w, s, h, ev.c)
                     w2 == IF w.trk[s] = "flagged" THEN Ev1(r.w, s, "M", h[1], TRUE) ELSE r.w
                 IN mk(w2, r.res)
            ELSE LET r == DoInsert(w, s, h, ev.c) IN mk(GiveBack(r.w, s, r.res, "harness"), r.res)
       [] ev.cls = "orins"  ->
            IF DeadOrUnknown(w, h) THEN mk(GiveBack(w, s, ev.c, "harness"), Refused)
            ELSE LET old == Cur(w, s, h) IN
                 IF old = Absent
                 THEN LET r == DoInsert(w, s, h, ev.c)
                          w2 == IF w.trk[s] = "flagged" THEN Ev1(r.w, s, "M", h[1], TRUE) ELSE r.w
                      IN mk(w2, ev.c)
                 ELSE mk(EvMut(GiveBack(w, s, ev.c, "library"), s, h[1], FALSE), old)
       [] ev.cls = "remove" -> LET r == DoRemove(w, s, h) IN mk(GiveBack(r.w, s, r.res, "harness"), r.res)
       [] ev.cls = "replace" ->   \* `*access = c` through a mutable access: the old value is destroyed, c takes its place
            LET old == Cur(w, s, h) IN
            IF old = Absent THEN mk(w, Absent)      \* (no access, the harness did not create the new value)
            ELSE LET w1 == [w EXCEPT !.comp[s] = FnSet(w.comp[s], h, ev.c), !.led = LedSet(w.led, ev.c[1], "held")]
                 IN mk(EvMut(GiveBack(w1, s, old, "library"), s, h[1], TRUE), old)
       [] ev.cls = "gremove" ->   \* GenericWriteStorage::remove: nothing is returned, the library destroys the value
            LET r == DoRemove(w, s, h) IN [w |-> GiveBack(r.w, s, r.res, "library"), f |-> {}]
       [] ev.cls = "gmod"   ->
            IF DeadOrUnknown(w, h) THEN mk(w, Absent)
            ELSE LET old == Cur(w, s, h)
                     w1 == IF old = Absent
                           THEN Ev1([w EXCEPT !.comp[s] = FnSet(w.comp[s], h, <<0, 0>>)], s, "I", h[1], FALSE)
                           ELSE w
                     r == DoWrite(w1, s, h, ev.val)
                 IN mk(r.w, r.res)

\* ---------------------------------------------------------------------
\* whole-storage operations.  ev.k:
\*   "drain"    storage.drain().join() taking the first ev.n items (all if n < 0);
\*              ev.items = <<<<index, value>>, ...>> as yielded
\*   "clear"    storage.clear()
\*   "count"    ev.n = count(), ev.b = is_empty()
\*   "join"     (&storage).join() / lend_join / par_join: ev.items as yielded (par: sorted)
\*   "joinmut"  (&mut storage).join() / lend_join / par_join: ev.items =
\*              <<<<index, value before, value written or -1>>, ...>>
\*   "joinent"  (&entities, &storage).join(): ev.items = <<<<handle, value>>, ...>>
\*   "entries"  (&entities, storage.entries()).lend_join(): <<<<handle, value or <<>>>>, ...>>
\*   "restrict" join over restrict()/restrict_mut() (ev.mode), per item
\*              <<index, value read, mutably fetched?, value written or -1>>
\*   "slice"    as_slice(): ev.kind "vec" (values at occupied indices, ev.items = <<<<index, value>>>>),
\*              "defvec" (ev.vals = every slot), "dense" (ev.vals = the dense values)
\*   "slicemut" as_mut_slice(), writing ev.writes = <<<<index or position, val>>>>
\*   "setemit"  set_event_emission(ev.b)
Members(w, s) == SortedById({h \in DOMAIN w.comp[s] : ~DeadOrUnknown(w, h)})

WOp(w, ev) ==
  LET s == ev.s
      mem == Members(w, s)
      \* joins over a single storage are joins (C06; parallel ones C07) as well as map reads (C04)
      par == Has(ev, "v") /\ ev.v \in {"par", "read_par", "mut_par"}
      props == IF ev.k = "restrict" THEN {"C13"} \cup (IF par THEN {"C07"} ELSE {})
               ELSE IF ev.k \in {"join", "joinmut", "joinent", "entries", "drain"} THEN {"C04", IF par THEN "C07" ELSE "C06"}
               ELSE {"C04"}
      flag(b, what, exp) == IF b THEN {F(p, what, <<ev.k, s, exp>>) : p \in props} ELSE {}
  IN CASE ev.k = "drain" ->
            LET n == IF ev.n < 0 \/ ev.n > Len(mem) THEN Len(mem) ELSE ev.n
                taken == SubSeq(mem, 1, n)
                exp == [i \in 1..n |-> <<taken[i][1], w.comp[s][taken[i]]>>]
                \* (ev.cnt: the draining join consumed by count() - nothing is handed out, the values are destroyed)
                counted == Has(ev, "cnt")
                RECURSIVE Rm(_, _)
                Rm(ww, i) == IF i > n THEN ww
                             ELSE LET r == DoRemove(ww, s, taken[i]) IN Rm(GiveBack(r.w, s, r.res, IF counted THEN "library" ELSE "harness"), i + 1)
            IN [w |-> Rm(w, 1), f |-> IF counted THEN flag(ev.cnt # n, "number of drained items (count())", n)
                                      ELSE flag(ev.items # exp, "drained items", exp)]
       [] ev.k = "clear" ->
            LET all == DOMAIN w.comp[s]
                gone == {w.comp[s][h][1] : h \in all}
            IN [w |-> [w EXCEPT !.comp[s] = <<>>, !.led = LedSetAll(w.led, gone, "destroyed"),
                                 !.zdes = IF w.zst[s] THEN w.zdes + Cardinality(all) ELSE w.zdes],
                f |-> {}]
       [] ev.k = "newreader" ->   \* a reader registered now receives what happens from now on
            [w |-> [w EXCEPT !.evq[s] = <<>>], f |-> {}]
       [] ev.k = "count" ->
            \* (mask bits that survived an interrupted operation - w.resid - may still be counted)
            LET c == Cardinality(DOMAIN w.comp[s])
                r == Cardinality(w.resid[s] \ {h[1] : h \in DOMAIN w.comp[s]})
            IN [w |-> w, f |-> flag(ev.n < c \/ ev.n > c + r \/ ev.b # (ev.n = 0), "count / is_empty", <<c, r>>)]
       [] ev.k = "join" ->
            LET exp == [i \in 1..Len(mem) |-> <<mem[i][1], w.comp[s][mem[i]]>>]
            IN [w |-> w, f |-> flag(ev.items # exp, "joined items", exp)]
       [] ev.k = "joinmut" ->
            LET exp == [i \in 1..Len(mem) |-> <<mem[i][1], w.comp[s][mem[i]]>>]
                got == [i \in 1..Len(ev.items) |-> <<ev.items[i][1], ev.items[i][2]>>]
                RECURSIVE Wr(_, _)
                Wr(ww, i) == IF i > Len(mem) \/ i > Len(ev.items) THEN ww
                             ELSE Wr(DoWrite(ww, s, mem[i], ev.items[i][3]).w, i + 1)
            IN [w |-> Wr(w, 1), f |-> flag(got # exp, "mutably joined items", exp)]
       [] ev.k = "joinent" ->
            LET exp == [i \in 1..Len(mem) |-> <<mem[i], w.comp[s][mem[i]]>>]
            IN [w |-> w, f |-> flag(ev.items # exp, "items joined with entities", exp)]
       [] ev.k = "entries" ->
            LET nd == SortedById(NotDead(w))
                exp == [i \in 1..Len(nd) |-> <<nd[i], Cur(w, s, nd[i])>>]
            IN [w |-> w, f |-> flag(ev.items # exp, "entries join", exp)]
       [] ev.k = "restrict" ->
            LET exp == [i \in 1..Len(mem) |-> <<mem[i][1], w.comp[s][mem[i]]>>]
                got == [i \in 1..Len(ev.items) |-> <<ev.items[i][1], ev.items[i][2]>>]
                RECURSIVE Wr(_, _)
                Wr(ww, i) == IF i > Len(mem) \/ i > Len(ev.items) THEN ww
                             ELSE IF ev.items[i][3] THEN Wr(DoWrite(ww, s, mem[i], ev.items[i][4]).w, i + 1)
                             ELSE Wr(ww, i + 1)
                \* (5th element, where recorded: the item's own entity - the handle the entities member of the join
                \* yielded - looked up through the item's get_other: the value the item itself carries)
                ownBad == {i \in 1..Len(ev.items) : Len(ev.items[i]) >= 5 /\ ev.items[i][5] # ev.items[i][2]}
            IN [w |-> Wr(w, 1), f |-> flag(got # exp, "items of restricted join", exp)
                                      \cup flag(ownBad # {}, "an item of a restricted join does not find its own entity (positions)", ownBad)]
       [] ev.k = "slice" ->
            \* (after a caught destructor panic the raw slot view may show leaked values - but never a value
            \* that has been destroyed or handed back)
            IF w.fault
            THEN LET shown == IF ev.kind \in {"vec", "defvec_sparse"} THEN {ev.items[i][2] : i \in 1..Len(ev.items)}
                              ELSE {ev.vals[i] : i \in 1..Len(ev.vals)}
                     gone == {g \in shown : g # <<0, 0>> /\ g[1] \in DOMAIN w.led /\ w.led[g[1]] # "held"}
                 IN [w |-> w, f |-> IF gone # {} THEN {F("C19", "the slot view of the storage shows a value that was already destroyed", <<s, gone>>),
                                                          F("C08", "the slot view of the storage shows a value that was already destroyed", <<s, gone>>)} ELSE {}]
            ELSE
            IF ev.kind = "vec"
            THEN LET exp == [i \in 1..Len(mem) |-> <<mem[i][1], w.comp[s][mem[i]]>>]
                 IN [w |-> w, f |-> flag(ev.items # exp, "slice at occupied indices", exp)]
            ELSE IF ev.kind = "defvec_sparse"
            THEN \* long default-filled slice: the slots that differ from Default are exactly the
                 \* occupied ones holding a non-default value, and the slice covers every occupied index
                 LET exp == SelectSeq([i \in 1..Len(mem) |-> <<mem[i][1], w.comp[s][mem[i]]>>], LAMBDA p : p[2] # <<0, 0>>)
                     bad == ev.items # exp \/ \E h \in SeqToSet(mem) : h[1] >= ev.len
                 IN [w |-> w, f |-> flag(bad, "default-filled slice (sparse view)", exp)]
            ELSE IF ev.kind = "defvec"
            THEN LET occ == {h[1] : h \in SeqToSet(mem)}
                     bad == \/ \E h \in SeqToSet(mem) : h[1] >= Len(ev.vals) \/ ev.vals[h[1] + 1] # w.comp[s][h]
                            \/ \E i \in 1..Len(ev.vals) : (i - 1) \notin occ /\ ev.vals[i] # <<0, 0>>
                     \* a slot outside the membership that still shows a value the library has destroyed / handed back
                     ghosts == {ev.vals[i] : i \in {j \in 1..Len(ev.vals) : (j - 1) \notin occ /\ ev.vals[j] # <<0, 0>>}}
                     gone == {g \in ghosts : g[1] \in DOMAIN w.led /\ w.led[g[1]] # "held"}
                 IN [w |-> w, f |-> flag(bad, "default-filled slice", mem)
                                    \cup (IF gone # {} THEN {F("C08", "a destroyed value is still visible in the slot view of the storage", <<s, gone>>)} ELSE {})]
            ELSE LET want == [i \in 1..Len(mem) |-> w.comp[s][mem[i]]]
                     bad == Len(ev.vals) # Len(want)
                            \/ \E v \in SeqToSet(want) \cup SeqToSet(ev.vals) :
                                 Cardinality({i \in 1..Len(want) : want[i] = v}) # Cardinality({i \in 1..Len(ev.vals) : ev.vals[i] = v})
                     \* a value the dense view still shows although the library has destroyed it / handed it back
                     \* (the component of a purged entity, a removed component)
                     gone == {g \in SeqToSet(ev.vals) \ SeqToSet(want) : g[1] \in DOMAIN w.led /\ w.led[g[1]] # "held"}
                 IN [w |-> w, f |-> flag(bad, "dense slice is not a permutation of the stored values", want)
                                    \cup (IF gone # {} THEN {F(p, "the dense view of the storage still shows a component that was purged / removed", <<s, gone>>) : p \in {"C05", "C08"}} ELSE {})]
       [] ev.k = "slicemut" ->
            \* ev.writes = <<<<index, cid, val>>>> : value cid at that index now has val
            LET RECURSIVE Wr(_, _)
                Wr(ww, i) == IF i > Len(ev.writes) THEN ww
                             ELSE LET hs == {h \in DOMAIN ww.comp[s] : ww.comp[s][h][1] = ev.writes[i][2] /\ (ev.writes[i][1] < 0 \/ h[1] = ev.writes[i][1])}
                                  IN IF hs = {} THEN Wr(ww, i + 1)
                                     ELSE LET h == CHOOSE x \in hs : TRUE
                                          IN Wr([ww EXCEPT !.comp[s][h] = <<ww.comp[s][h][1], ev.writes[i][3]>>], i + 1)
            IN [w |-> Wr(w, 1), f |-> {}]
       [] ev.k = "setemit" ->
            [w |-> [w EXCEPT !.emit[s] = ev.b],
             f |-> IF Has(ev, "got") /\ ev.got # ev.b THEN {F("C12", "event_emission() does not report the state just set", <<s, ev.b, ev.got>>)} ELSE {}]
       [] ev.k = "flagev" ->     \* Storage::flag: an event of the caller's choosing goes straight into the channel
            [w |-> IF w.trk[s] = "none" THEN w ELSE [w EXCEPT !.evq[s] = Append(@, <<ev.ev, ev.id, FALSE>>)], f |-> {}]

\* an insertion at an index the membership mask cannot hold (>= 2^24): the library
\* panics after the raw insert; the value must be taken out and destroyed again
\* (exactly once), the storage is unchanged                                (C08)
OobInsert(w, ev) ==
  \* a change-tracking wrapper may report the raw insertion and its undoing (membership replay stays correct)
  [w |-> IF ev.panicked
         THEN Ev1(Ev1([w EXCEPT !.led = LedSet(w.led, ev.c[1], "destroyed"), !.zdes = IF w.zst[ev.s] THEN w.zdes + 1 ELSE w.zdes],
                      ev.s, "I", ev.id, TRUE), ev.s, "R", ev.id, TRUE)
         ELSE w,
   f |-> IF ~ev.panicked THEN {F("C08", "insertion beyond the mask's range did not fail", ev.c)} ELSE {}]

\* end of a world: everything still held (in storages or in the lazy
\* queue) is destroyed exactly once; compare with the instrumented ledger
DropWorld(w, ev) ==
  LET L == ev.ledger
      held == {c \in DOMAIN w.led : w.led[c] = "held"}
      des == {c \in DOMAIN w.led : w.led[c] = "destroyed"} \cup held
      ret == {c \in DOMAIN w.led : w.led[c] = "returned"}
      nzheld == Cardinality({p \in (DOMAIN w.comp) \X w.issued : w.zst[p[1]] /\ p[2] \in DOMAIN w.comp[p[1]]})
      faulted == w.fault \/ (Has(ev, "tfault") /\ ev.tfault)
      P == IF faulted THEN "C19" ELSE "C08"
  IN [w |-> w,
      \* (destroyed twice: "exactly once" is broken whatever happened before)
      f |-> (IF L.anomalies # <<>> THEN {F(P, "double drop / drop of unknown value", L.anomalies), F("C08", "double drop / drop of unknown value", L.anomalies)} ELSE {})
       \cup (IF faulted THEN {}   \* once a destructor has panicked leaks are allowed and L0's ledger is only a lower bound
             ELSE (IF SeqToSet(L.destroyed) # des THEN {F("C08", "destroyed set differs (extra, missing)", <<(SeqToSet(L.destroyed) \ des), (des \ SeqToSet(L.destroyed))>>)} ELSE {})
             \cup (IF SeqToSet(L.returned) # ret THEN {F("C08", "returned set differs (extra, missing)", <<(SeqToSet(L.returned) \ ret), (ret \ SeqToSet(L.returned))>>)} ELSE {})
             \cup (IF L.held # <<>> THEN {F("C08", "values leaked (still held after the world was dropped)", L.held)} ELSE {})
             \* zero-sized values carry no identity: conservation (every value created - by the
             \* caller or as a Default inside the library - is dropped exactly once), exactly the
             \* predicted number handed back to the caller, and at least the predicted number
             \* destroyed by the library (the library may create and destroy Defaults of its own)
             \cup (IF L.zc # L.zlib + L.zharn \/ L.zharn # w.zret \/ L.zlib < w.zdes + nzheld
                   THEN {F("C08", "zero-sized component accounting (created, lib drops, expected at least, harness drops, expected)", <<L.zc, L.zlib, w.zdes + nzheld, L.zharn, w.zret>>)} ELSE {}))]

\* ---------------------------------------------------------------------
\* C19: a component destructor panicked inside ev.in (injected by the harness:
\* the ev.k-th destructor call of that operation) and the panic was caught.
\* The property allows the rest of the operation to be skipped and values to
\* leak; it forbids that anything is destroyed twice (now or later) and that
\* any lookup returns a destroyed value.  The monitor therefore re-bases the
\* abstract state on what is observable after the fault - statuses from
\* is_alive, storage contents from the full lookup sweep, the ledger from the
\* instrumented one - and checks exactly those two things; afterwards the
\* ordinary rules apply again to whatever the script does next.
Fault(w, ev) ==
  LET o == ev.obs  L == ev.ledger  n == Len(o.hs)
      des == SeqToSet(L.destroyed)  ret == SeqToSet(L.returned)
      seen(s) == {i \in 1..n : o.st[s].get[i] # <<>>}
      newcomp(s) == [h \in {o.hs[i] : i \in seen(s)} |-> o.st[s].get[CHOOSE i \in seen(s) : o.hs[i] = h]]
      exposed == {p \in (1..Len(o.st)) \X (1..n) : o.st[p[1]].get[p[2]] # <<>> /\ o.st[p[1]].get[p[2]][1] \in (des \cup ret)}
      aliveH == {o.hs[i] : i \in {j \in 1..n : o.alive[j]}}
      st2 == [h \in w.issued |-> IF h \in aliveH THEN (IF w.status[h] = "dead" THEN "live" ELSE w.status[h]) ELSE "dead"]
      zombies == {h \in w.issued : w.status[h] = "dead" /\ h \in aliveH}
      \* ev.orphan: the panic interrupted the chain of an entity builder (shared entities resource); the builder
      \* was dropped by the unwinding, so its entity - created, reported by no creation event - awaits deletion
      orph == IF "orphan" \in DOMAIN ev THEN {ev.orphan} ELSE {}
      iss2 == w.issued \cup orph
  IN [w |-> [w EXCEPT !.fault = TRUE,
                      !.issued = iss2,
                      !.status = [h \in iss2 |-> IF h \in orph /\ h \notin w.issued THEN "doomed" ELSE st2[h]],
                      !.merged = IF ev.in = "MaintainBegin" THEN [h \in iss2 |-> TRUE]
                                 ELSE [h \in iss2 |-> IF h \in w.issued THEN w.merged[h] ELSE FALSE],
                      !.comp = [s \in DOMAIN w.comp |-> IF s <= Len(o.st) THEN newcomp(s) ELSE w.comp[s]],
                      !.resid = [s \in DOMAIN w.comp |-> IF s <= Len(o.st)
                                                          THEN w.resid[s] \cup (SeqToSet(o.st[s].mask) \ {o.hs[i][1] : i \in seen(s)})
                                                          ELSE w.resid[s]],
                      \* the ledger is re-based on the instrumented one as well: what the interrupted operation
                      \* did not get to destroy is still held (leaked, which is allowed)
                      !.led = [c \in DOMAIN w.led \cup ((des \cup ret) \ {0}) |->
                                 IF c \in des THEN "destroyed" ELSE IF c \in ret THEN "returned" ELSE "held"],
                      !.evq = [s \in DOMAIN w.comp |-> <<>>],
                      \* a destructor that panics inside a queued lazy action unwinds out of the queue's
                      \* maintain, which discards the rest of the queue (no deferred deletion was being
                      \* applied, so the destructor was called from a lazy action)
                      !.lazyq = IF ev.in = "MaintainBegin" /\ ~w.mdoom THEN <<>> ELSE w.lazyq,
                      !.inm = 0],
      f |-> {F("C19", "a lookup returns a value that was already destroyed / handed back (storage, handle, value)",
               <<p[1], o.hs[p[2]], o.st[p[1]].get[p[2]]>>) : p \in exposed}
       \cup (IF L.anomalies # <<>> THEN {F("C19", "a value was destroyed twice", L.anomalies), F("C08", "a value was destroyed twice", L.anomalies)} ELSE {})
       \cup {F("C19", "a dead entity is alive again after the fault", h) : h \in zombies}
       \cup {F("C01", "handle not fresh", h) : h \in orph \cap w.issued}]

\* a panic escaping library code where none is allowed
PanicProp(w, ev) ==
  IF w.fault THEN "C19" ELSE
  CASE ev.in \in {"Created"} -> "C01"
    [] ev.in \in {"Delete", "DeleteBatch", "EDelete", "DeleteAll"} -> "C02"
    [] ev.in \in {"MaintainBegin", "MaintainEnd", "LazyRun", "LazyQueue"} -> "C09"
    [] ev.in \in {"SOp", "WOp"} -> "C04"
    [] ev.in \in {"DropWorld"} -> "C08"
    [] OTHER -> "C02"

Panic(w, ev) == [w |-> w, f |-> {F(PanicProp(w, ev), "panic escaped from library code", <<ev.in, ev.msg>>)}]

Dispatch(w, ev) ==
  CASE ev.op = "Created"       -> Created(w, ev)
    [] ev.op = "Prealloc"      -> Prealloc(w, ev)
    [] ev.op = "Delete"        -> Delete(w, ev)
    [] ev.op = "DeleteBatch"   -> DeleteBatch(w, ev)
    [] ev.op = "EDelete"       -> EDelete(w, ev)
    [] ev.op = "DeleteAll"     -> DeleteAll(w, ev)
    [] ev.op = "MaintainBegin" -> MaintainBegin(w, ev)
    [] ev.op = "LazyRun"       -> LazyRun(w, ev)
    [] ev.op = "MaintainEnd"   -> MaintainEnd(w, ev)
    [] ev.op = "LazyQueue"     -> LazyQueue(w, ev)
    [] ev.op = "SOp"           -> SOp(w, ev)
    [] ev.op = "WOp"           -> WOp(w, ev)
    [] ev.op = "OobInsert"     -> OobInsert(w, ev)
    [] ev.op = "DropWorld"     -> DropWorld(w, ev)
    [] ev.op = "Panic"         -> Panic(w, ev)
    [] ev.op = "Fault"         -> Fault(w, ev)
    [] ev.op = "Nop"           -> [w |-> w, f |-> {}]

\* Step: returns [w, f] with f a set of <<property, message, detail>>
Step(w, ev) ==
  IF ev.op = "Reset" THEN [w |-> W0(ev.cfg), f |-> {}]
  ELSE LET r == Dispatch(w, ev)
           of == ObsFlags(r.w, ev)
       IN [w |-> AfterObs(r.w, ev), f |-> r.f \cup of]
=============================================================================
