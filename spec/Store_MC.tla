------------------------------ MODULE Store_MC ------------------------------
(***************************************************************************)
(* TLC harness for Store_L1: every sequence of storage operations within   *)
(* the bounds, the produced events checked by the property monitor         *)
(* World_L0 (map equivalence C04, event stream C12, nothing exposed after  *)
(* destruction C08), Store_L1's structural invariants, and one op script   *)
(* per explored transition for replay on the real storages.                *)
(***************************************************************************)
EXTENDS Store_L1, Json

CONSTANTS MaxOps, MaxC, Emit, Faults     \* Faults: include destructor-panic operations (C19)

L0 == INSTANCE World_L0

VARIABLES st, w, viol, hist, ended

IdSeq == SeqOfSet(Ids)

Ops ==
     {[o |-> "get", i |-> i] : i \in Ids}
  \cup {[o |-> "get_mut", i |-> i, w |-> b] : i \in Ids \ st.dead, b \in BOOLEAN}
  \cup {[o |-> "insert", i |-> i] : i \in Ids \ st.dead}
  \cup {[o |-> "remove", i |-> i] : i \in Ids \ st.dead}
  \cup {[o |-> "clear"], [o |-> "count"]}
  \cup {[o |-> "drain", n |-> n] : n \in {0 - 1, 1}}
  \cup {[o |-> "joinmut", sel |-> x] : x \in {{}, {1}, {2}, {1, 2, 3}}}
  \cup (IF Trk = "none" THEN {} ELSE {[o |-> "setemit", b |-> b] : b \in BOOLEAN})
  \cup (IF Kind \in {"vec", "dense", "defvec"} THEN {[o |-> "slice"]} ELSE {})
  \cup {[o |-> "restrict", fm |-> x[1], wr |-> x[2]] : x \in {<<{}, {}>>, <<{1}, {1}>>, <<{2}, {2}>>, <<{1, 2, 3}, {2}>>}}
  \cup (IF Faults THEN {[o |-> "clear_f", k |-> k] : k \in 1..2} \cup {[o |-> "delete_f", i |-> i] : i \in Ids \ st.dead}
                       \cup {[o |-> "teardown"]} ELSE {})

RECURSIVE Fold(_, _, _, _)
Fold(ww, vv, evs, k) ==
  IF k > Len(evs) THEN [w |-> ww, viol |-> vv]
  ELSE LET r == L0!Step(ww, evs[k]) IN Fold(r.w, vv \cup r.f, evs, k + 1)

W1 == L0!Step(L0!W0([S |-> 1, zst |-> <<Kind = "null">>, trk |-> <<Trk>>, tid |-> 0]),
              [op |-> "Prealloc", n |-> MaxId + 1, hs |-> [k \in 1..Len(IdSeq) |-> H(IdSeq[k])]]).w

MCInit == st = Init0 /\ w = W1 /\ viol = {} /\ hist = <<>> /\ ended = FALSE

MCNext ==
  /\ Len(hist) < MaxOps /\ ~ended
  /\ \E op \in Ops :
       LET r == IF op.o \in {"clear_f", "delete_f"} THEN ExecFault(st, op)
                ELSE IF op.o = "teardown" THEN Teardown(st) ELSE Exec(st, op)
           f == Fold(w, viol, r.evs, 1)
       IN /\ st' = r.st
          /\ w' = f.w
          /\ viol' = f.viol
          /\ hist' = Append(hist, op)
          /\ ended' = (op.o = "teardown")
          /\ (Emit => PrintT(<<"SCRIPT", ToJson(Append(hist, op))>>))

MCSpec == MCInit /\ [][MCNext]_<<st, w, viol, hist, ended>>

Bound == st.ncid <= MaxC /\ st.nval <= 100 + MaxC + 3
View == <<st, w, ended>>
NoViol == viol = {}
StructInv == Struct(st)
=============================================================================
