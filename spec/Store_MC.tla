------------------------------ MODULE Store_MC ------------------------------
(***************************************************************************)
(* TLC harness for Store_L1: every sequence of storage operations within   *)
(* the bounds, the produced events checked by the property monitor         *)
(* World_L0 (map equivalence C04, event stream C12, nothing exposed after  *)
(* destruction C08), Store_L1's structural invariants, and one op script   *)
(* per explored transition for replay on the real storages.                *)
(***************************************************************************)
EXTENDS Store_L1, Json

CONSTANTS MaxOps, MaxC, Emit

L0 == INSTANCE World_L0

VARIABLES st, w, viol, hist

IdSeq == SeqOfSet(Ids)

Ops ==
     {[o |-> "get", i |-> i] : i \in Ids}
  \cup {[o |-> "get_mut", i |-> i, w |-> b] : i \in Ids, b \in BOOLEAN}
  \cup {[o |-> "insert", i |-> i] : i \in Ids}
  \cup {[o |-> "remove", i |-> i] : i \in Ids}
  \cup {[o |-> "clear"], [o |-> "count"]}
  \cup {[o |-> "drain", n |-> n] : n \in {0 - 1, 1}}
  \cup {[o |-> "joinmut", sel |-> x] : x \in {{}, {1}, {2}, {1, 2, 3}}}
  \cup (IF Trk = "none" THEN {} ELSE {[o |-> "setemit", b |-> b] : b \in BOOLEAN})

RECURSIVE Fold(_, _, _, _)
Fold(ww, vv, evs, k) ==
  IF k > Len(evs) THEN [w |-> ww, viol |-> vv]
  ELSE LET r == L0!Step(ww, evs[k]) IN Fold(r.w, vv \cup r.f, evs, k + 1)

W1 == L0!Step(L0!W0([S |-> 1, zst |-> <<Kind = "null">>, trk |-> <<Trk>>, tid |-> 0]),
              [op |-> "Prealloc", n |-> MaxId + 1, hs |-> [k \in 1..Len(IdSeq) |-> H(IdSeq[k])]]).w

MCInit == st = Init0 /\ w = W1 /\ viol = {} /\ hist = <<>>

MCNext ==
  /\ Len(hist) < MaxOps
  /\ \E op \in Ops :
       LET r == Exec(st, op)
           f == Fold(w, viol, r.evs, 1)
       IN /\ st' = r.st
          /\ w' = f.w
          /\ viol' = f.viol
          /\ hist' = Append(hist, op)
          /\ (Emit => PrintT(<<"SCRIPT", ToJson(Append(hist, op))>>))

MCSpec == MCInit /\ [][MCNext]_<<st, w, viol, hist>>

Bound == st.ncid <= MaxC /\ st.nval <= 100 + MaxC + 3
View == <<st, w>>
NoViol == viol = {}
StructInv == Struct(st)
=============================================================================
