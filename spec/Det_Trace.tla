----------------------------- MODULE Det_Trace -----------------------------
(***************************************************************************)
(* Product monitor for C20: every line of the input pairs two transcripts  *)
(* of the same single-threaded operation script - recorded from two worlds *)
(* in one process (kind "same") or in two processes with different hash    *)
(* seeds and address layout (kind "cross") - and the monitor steps through *)
(* them in lock-step: every event (results, handles, join orders, event    *)
(* streams, serialised data) must be identical.                            *)
(***************************************************************************)
EXTENDS Naturals, Sequences, TLC, Json, IOUtils

Rec == ndJsonDeserialize(IOEnv.TRACE)

VARIABLES l, viol
vars == <<l, viol>>

FirstDiff(a, b) ==
  LET n == IF Len(a) < Len(b) THEN Len(a) ELSE Len(b)
      d == {i \in 1..n : a[i] # b[i]}
  IN IF d # {} THEN CHOOSE i \in d : \A j \in d : i <= j
     ELSE IF Len(a) # Len(b) THEN n + 1 ELSE 0

Check(r) ==
  LET k == FirstDiff(r.a, r.b) IN
  IF k = 0 THEN {}
  ELSE {<<"C20", "two runs of the same script diverge (" \o r.kind \o " process) at event",
          ToString(<<k, IF k <= Len(r.a) THEN r.a[k] ELSE "<end>", IF k <= Len(r.b) THEN r.b[k] ELSE "<end>">>)>>}

TInit == l = 1 /\ viol = {}
TNext ==
  /\ l <= Len(Rec)
  /\ viol' = viol \cup {[line |-> l, tid |-> Rec[l].tid, p |-> x[1], m |-> x[2], d |-> x[3]] : x \in Check(Rec[l])}
  /\ l' = l + 1
TSpec == TInit /\ [][TNext]_vars
Verdict == (l = Len(Rec) + 1) => PrintT(<<"VERDICT", ToJson([n |-> Len(Rec), viol |-> viol])>>)
Accepted == TLCGet("stats").diameter = Len(Rec) + 1
=============================================================================
