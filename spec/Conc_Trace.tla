---------------------------- MODULE Conc_Trace ----------------------------
EXTENDS Conc_L0, Json, IOUtils
Rec == ndJsonDeserialize(IOEnv.TRACE)
VARIABLES l, prev, viol
vars == <<l, prev, viol>>
TInit == l = 1 /\ prev = {} /\ viol = {}
TNext ==
  /\ l <= Len(Rec)
  /\ viol' = viol \cup {[line |-> l, tid |-> Rec[l].tid, p |-> x[1], m |-> x[2], d |-> x[3]] : x \in Check(Rec[l], prev)}
  /\ prev' = WantAlive(Rec[l], prev)
  /\ l' = l + 1
TSpec == TInit /\ [][TNext]_vars
Verdict == (l = Len(Rec) + 1) => PrintT(<<"VERDICT", ToJson([n |-> Len(Rec), viol |-> viol])>>)
Accepted == TLCGet("stats").diameter = Len(Rec) + 1
=============================================================================
