//! Capabilities that only some storage kinds have (mutable joins need
//! `SharedGetMutStorage`, parallel mutable joins `DistinctStorage`, slices
//! `SliceAccess`, events `Tracked`).  One trait with "not available"
//! defaults, implemented per component type through small macros.

use crate::comps::*;
use serde_json::{json, Value};
use specs::prelude::*;
use specs::storage::{
    AccessMut, ComponentEvent, DistinctStorage, SharedGetMutStorage, SliceAccess, UnprotectedStorage,
};
use std::any::TypeId;
use std::collections::HashMap;
use std::sync::Mutex;

/// value to write for the j-th item: >= 0 write, -1 fetch mutably without
/// writing, -2 do not fetch mutably
pub type Sel<'a> = &'a (dyn Fn(usize) -> i64 + Sync);

pub trait Caps: TokComp {
    fn tracked() -> &'static str {
        "none"
    }
    fn join_mut(_w: &World, _variant: &str, _sel: Sel) -> Option<Vec<Value>> {
        None
    }
    fn restrict_mut(_w: &World, _variant: &str, _sel: Sel) -> Option<Vec<Value>> {
        None
    }
    fn slice(_w: &World) -> Option<Value> {
        None
    }
    fn slice_mut(_w: &World, _sel: Sel) -> Option<Value> {
        None
    }
    fn register_reader(_w: &World) {}
    fn read_events(_w: &World) -> Option<Vec<Value>> {
        None
    }
    /// `Storage::flag`: write an event of the caller's choosing; false = not a tracked storage
    fn flag_event(_w: &World, _kind: &str, _id: u32) -> bool {
        false
    }
    /// `Storage::event_emission()`
    fn get_emit(_w: &World) -> Option<bool> {
        None
    }
    fn set_emit(_w: &World, _b: bool) -> bool {
        false
    }
}

// ------------------------------------------------------------------ helpers
fn access_item<A: AccessMut<Target = T>, T: TokComp>(id: u32, mut a: A, wv: i64) -> Value {
    let before = (&*a).js();
    if wv >= 0 {
        a.access_mut().set_val(wv as u32);
    }
    json!([id, before, wv])
}

pub fn join_mut_seq<T: TokComp>(w: &World, sel: Sel) -> Vec<Value>
where
    T::Storage: SharedGetMutStorage<T>,
{
    let ents = w.entities();
    let mut st = w.write_storage::<T>();
    let mut out = vec![];
    for (j, (e, a)) in (&ents, &mut st).join().enumerate() {
        out.push(access_item(e.id(), a, sel(j).max(-1)));
    }
    out
}

pub fn join_mut_par<T: TokComp>(w: &World, sel: Sel) -> Vec<Value>
where
    T::Storage: Sync + SharedGetMutStorage<T> + DistinctStorage,
    for<'a> <T::Storage as UnprotectedStorage<T>>::AccessMut<'a>: Send,
{
    let ents = w.entities();
    let mut st = w.write_storage::<T>();
    // the value to write is chosen by position in index order, so compute positions first
    let ids: Vec<u32> = {
        use specs::hibitset::BitSetLike;
        st.mask().iter().collect()
    };
    let pos: HashMap<u32, usize> = ids.iter().enumerate().map(|(j, i)| (*i, j)).collect();
    let out = Mutex::new(vec![]);
    (&ents, &mut st).par_join().for_each(|(e, a)| {
        let j = pos.get(&e.id()).copied().unwrap_or(usize::MAX);
        let v = access_item(e.id(), a, if j == usize::MAX { -1 } else { sel(j).max(-1) });
        out.lock().unwrap().push((e.id(), v));
    });
    let mut v = out.into_inner().unwrap();
    v.sort_by_key(|x| x.0);
    v.into_iter().map(|x| x.1).collect()
}

fn restrict_item(id: u32, read: Value, wv: i64) -> Value {
    json!([id, read, wv >= -1, wv])
}

pub fn restrict_mut_seq<T: TokComp>(w: &World, sel: Sel) -> Vec<Value>
where
    T::Storage: SharedGetMutStorage<T>,
{
    let ents = w.entities();
    let mut st = w.write_storage::<T>();
    let mut r = st.restrict_mut();
    let mut out = vec![];
    for (j, (e, mut item)) in (&ents, &mut r).join().enumerate() {
        let read = item.get().js();
        let wv = sel(j);
        if wv >= -1 {
            let mut a = item.get_mut();
            if wv >= 0 {
                a.access_mut().set_val(wv as u32);
            }
        }
        out.push(restrict_item(e.id(), read, wv));
    }
    out
}

pub fn restrict_mut_par<T: TokComp>(w: &World, sel: Sel) -> Vec<Value>
where
    T::Storage: Sync + SharedGetMutStorage<T> + DistinctStorage,
{
    let ents = w.entities();
    let mut st = w.write_storage::<T>();
    let ids: Vec<u32> = {
        use specs::hibitset::BitSetLike;
        st.mask().iter().collect()
    };
    let pos: HashMap<u32, usize> = ids.iter().enumerate().map(|(j, i)| (*i, j)).collect();
    let mut r = st.restrict_mut();
    let out = Mutex::new(vec![]);
    (&ents, &mut r).par_join().for_each(|(e, mut item)| {
        let read = item.get().js();
        let j = pos.get(&e.id()).copied().unwrap_or(usize::MAX);
        let wv = if j == usize::MAX { -2 } else { sel(j) };
        if wv >= -1 {
            let mut a = item.get_mut();
            if wv >= 0 {
                a.access_mut().set_val(wv as u32);
            }
        }
        out.lock().unwrap().push((e.id(), restrict_item(e.id(), read, wv)));
    });
    let mut v = out.into_inner().unwrap();
    v.sort_by_key(|x| x.0);
    v.into_iter().map(|x| x.1).collect()
}

// ------------------------------------------------------------------ events
static READERS: Mutex<Option<HashMap<TypeId, ReaderId<ComponentEvent>>>> = Mutex::new(None);

pub fn reset_readers() {
    *READERS.lock().unwrap_or_else(|e| e.into_inner()) = Some(HashMap::new());
}

pub fn reg_reader<T: TokComp>(w: &World)
where
    T::Storage: Tracked,
{
    let mut st = w.write_storage::<T>();
    let r = st.register_reader();
    READERS
        .lock()
        .unwrap_or_else(|e| e.into_inner())
        .get_or_insert_with(HashMap::new)
        .insert(TypeId::of::<T>(), r);
}

pub fn read_evs<T: TokComp>(w: &World) -> Option<Vec<Value>>
where
    T::Storage: Tracked,
{
    let st = w.read_storage::<T>();
    let mut g = READERS.lock().unwrap_or_else(|e| e.into_inner());
    let r = g.as_mut()?.get_mut(&TypeId::of::<T>())?;
    Some(
        st.channel()
            .read(r)
            .map(|e| match e {
                ComponentEvent::Inserted(i) => json!(["I", i]),
                ComponentEvent::Modified(i) => json!(["M", i]),
                ComponentEvent::Removed(i) => json!(["R", i]),
            })
            .collect(),
    )
}

pub fn set_emit_t<T: TokComp>(w: &World, b: bool) -> bool
where
    T::Storage: Tracked,
{
    let mut st = w.write_storage::<T>();
    st.set_event_emission(b);
    true
}

pub fn get_emit_t<T: TokComp>(w: &World) -> Option<bool>
where
    T::Storage: Tracked,
{
    let st = w.read_storage::<T>();
    Some(st.event_emission())
}

pub fn flag_t<T: TokComp>(w: &World, kind: &str, id: u32) -> bool
where
    T::Storage: Tracked,
{
    let mut st = w.write_storage::<T>();
    st.flag(match kind {
        "I" => ComponentEvent::Inserted(id),
        "R" => ComponentEvent::Removed(id),
        _ => ComponentEvent::Modified(id),
    });
    true
}

// ------------------------------------------------------------------ slices
fn occupied<T: TokComp>(st: &ReadStorage<T>) -> Vec<u32> {
    use specs::hibitset::BitSetLike;
    st.mask().iter().collect()
}

macro_rules! caps_plain {
    ($($t:ident),*) => { $(
        impl<const N: u8> Caps for $t<N> {
            fn join_mut(w: &World, variant: &str, sel: Sel) -> Option<Vec<Value>> {
                match variant { "join" => Some(join_mut_seq::<Self>(w, sel)), "par" => Some(join_mut_par::<Self>(w, sel)), _ => None }
            }
            fn restrict_mut(w: &World, variant: &str, sel: Sel) -> Option<Vec<Value>> {
                match variant { "mut_join" => Some(restrict_mut_seq::<Self>(w, sel)), "mut_par" => Some(restrict_mut_par::<Self>(w, sel)), _ => None }
            }
            caps_slice!($t);
        }
    )* };
}

macro_rules! caps_flagged {
    ($($t:ident),*) => { $(
        impl<const N: u8> Caps for $t<N> {
            fn tracked() -> &'static str { "flagged" }
            fn join_mut(w: &World, variant: &str, sel: Sel) -> Option<Vec<Value>> {
                match variant { "join" => Some(join_mut_seq::<Self>(w, sel)), _ => None }
            }
            fn restrict_mut(w: &World, variant: &str, sel: Sel) -> Option<Vec<Value>> {
                match variant { "mut_join" => Some(restrict_mut_seq::<Self>(w, sel)), _ => None }
            }
            fn register_reader(w: &World) { reg_reader::<Self>(w) }
            fn read_events(w: &World) -> Option<Vec<Value>> { read_evs::<Self>(w) }
            fn set_emit(w: &World, b: bool) -> bool { set_emit_t::<Self>(w, b) }
            fn get_emit(w: &World) -> Option<bool> { get_emit_t::<Self>(w) }
            fn flag_event(w: &World, kind: &str, id: u32) -> bool { flag_t::<Self>(w, kind, id) }
        }
    )* };
}

macro_rules! caps_deref {
    ($($t:ident),*) => { $(
        impl<const N: u8> Caps for $t<N> {
            fn tracked() -> &'static str { "deref" }
            fn register_reader(w: &World) { reg_reader::<Self>(w) }
            fn read_events(w: &World) -> Option<Vec<Value>> { read_evs::<Self>(w) }
            fn set_emit(w: &World, b: bool) -> bool { set_emit_t::<Self>(w, b) }
            fn get_emit(w: &World) -> Option<bool> { get_emit_t::<Self>(w) }
            fn flag_event(w: &World, kind: &str, id: u32) -> bool { flag_t::<Self>(w, kind, id) }
        }
    )* };
}

macro_rules! caps_slice {
    (CVec) => {
        fn slice(w: &World) -> Option<Value> {
            let st = w.read_storage::<Self>();
            let sl = st.as_slice();
            // MaybeUninit slots: only the occupied ones may be read
            let items: Vec<Value> = occupied(&st)
                .into_iter()
                .map(|i| {
                    if (i as usize) < sl.len() {
                        // SAFETY (harness): the mask says this slot was written
                        json!([i, unsafe { sl[i as usize].assume_init_ref() }.js()])
                    } else {
                        json!([i, [-2]])
                    }
                })
                .collect();
            Some(json!({"kind":"vec","items":items}))
        }
        fn slice_mut(w: &World, sel: Sel) -> Option<Value> {
            let occ = occupied(&w.read_storage::<Self>());
            let mut st = w.write_storage::<Self>();
            let sl = st.as_mut_slice();
            let mut writes = vec![];
            for (j, i) in occ.into_iter().enumerate() {
                let wv = sel(j);
                if wv >= 0 && (i as usize) < sl.len() {
                    // SAFETY (harness): occupied slot
                    let c = unsafe { sl[i as usize].assume_init_mut() };
                    c.set_val(wv as u32);
                    writes.push(json!([i, c.cid(), wv]));
                }
            }
            Some(json!({"writes":writes}))
        }
    };
    (CDefVec) => {
        fn slice(w: &World) -> Option<Value> {
            let st = w.read_storage::<Self>();
            let sl = st.as_slice();
            if sl.len() > 2048 {
                // far-apart indices: only the slots that differ from Default, and the length
                let nd: Vec<Value> = sl.iter().enumerate().filter(|(_, c)| c.cid() != 0 || c.val() != 0).map(|(i, c)| json!([i, c.js()])).collect();
                return Some(json!({"kind":"defvec_sparse","len":sl.len(),"items":nd}));
            }
            let vals: Vec<Value> = sl.iter().map(|c| c.js()).collect();
            Some(json!({"kind":"defvec","vals":vals}))
        }
        fn slice_mut(w: &World, sel: Sel) -> Option<Value> {
            let occ = occupied(&w.read_storage::<Self>());
            let mut st = w.write_storage::<Self>();
            let sl = st.as_mut_slice();
            let mut writes = vec![];
            for (j, i) in occ.into_iter().enumerate() {
                let wv = sel(j);
                if wv >= 0 && (i as usize) < sl.len() {
                    sl[i as usize].set_val(wv as u32);
                    writes.push(json!([i, sl[i as usize].cid(), wv]));
                }
            }
            Some(json!({"writes":writes}))
        }
    };
    (CDense) => {
        fn slice(w: &World) -> Option<Value> {
            let st = w.read_storage::<Self>();
            let vals: Vec<Value> = st.as_slice().iter().map(|c| c.js()).collect();
            Some(json!({"kind":"dense","vals":vals}))
        }
        fn slice_mut(w: &World, sel: Sel) -> Option<Value> {
            let mut st = w.write_storage::<Self>();
            let sl = st.as_mut_slice();
            let mut writes = vec![];
            for (j, c) in sl.iter_mut().enumerate() {
                let wv = sel(j);
                // the dense slice does not say which entity a value belongs to; the value's
                // own id does - Default-created values (id 0) are not unique and are left alone
                if wv >= 0 && c.cid() != 0 {
                    c.set_val(wv as u32);
                    writes.push(json!([-1, c.cid(), wv]));
                }
            }
            Some(json!({"writes":writes}))
        }
    };
    (CPVec) => { caps_slice!(CVec); };
    (CPDefVec) => { caps_slice!(CDefVec); };
    (CPDense) => { caps_slice!(CDense); };
    ($other:ident) => {};
}

caps_plain!(CVec, CDense, CHash, CBTree, CDefVec, CNull, CPVec, CPDense, CPHash, CPBTree, CPDefVec);
caps_flagged!(CFVec, CFDense, CFHash, CFBTree, CFDefVec, CFNull, CPFHash);
caps_deref!(CDVec, CDDense, CDHash, CDBTree, CDDefVec, CDNull);
