//! Type-erased access to one component storage of a world: every
//! handle-taking access path of `Storage`, the builders and the lazy queue.
//! One generic implementation, instantiated for every instrumented
//! component type (comps.rs).

use crate::caps::Caps;
use crate::comps::*;
use serde_json::{json, Value};
use specs::prelude::*;
use specs::storage::{AccessMut, GenericWriteStorage, StorageEntry};
use specs::world::{EntityResBuilder, LazyBuilder};
use std::marker::PhantomData;

pub fn absent() -> Value {
    json!([])
}
pub fn refused() -> Value {
    json!([-1])
}

pub trait StoreOps: Send + Sync {
    fn kind(&self) -> &'static str;
    fn zst(&self) -> bool;
    fn register(&self, world: &mut World, how: &str);
    /// One storage operation through a handle. Returns (cls, res-fields).
    fn sop(&self, world: &World, path: &str, e: Entity, c: (u32, u32), wval: i64) -> Value;
    fn sweep(&self, world: &World, hs: &[Entity]) -> Value;
    /// insert at an index the membership mask cannot represent (>= 2^24): the mask
    /// update panics after the raw insert; returns whether it panicked
    fn oob_insert(&self, world: &World, c: (u32, u32)) -> bool;
    fn tracked(&self) -> &'static str;
    /// whole-storage operation; `base` is the first of 64 fresh values that may be written
    fn wop(&self, world: &World, op: &Value, base: i64) -> Option<Value>;
    fn with_builder<'a>(&self, b: EntityBuilder<'a>, c: (u32, u32)) -> EntityBuilder<'a>;
    fn without_builder<'a>(&self, b: EntityBuilder<'a>) -> EntityBuilder<'a>;
    fn with_res_builder<'a>(
        &self,
        b: EntityResBuilder<'a>,
        world: &World,
        c: (u32, u32),
    ) -> EntityResBuilder<'a>;
    fn with_lazy_builder<'a>(&self, b: LazyBuilder<'a>, c: (u32, u32)) -> LazyBuilder<'a>;
    fn lazy_insert(&self, lazy: &LazyUpdate, e: Entity, c: (u32, u32));
    fn lazy_insert_all(&self, lazy: &LazyUpdate, items: Vec<(Entity, (u32, u32))>);
    fn lazy_remove(&self, lazy: &LazyUpdate, e: Entity);
}

pub struct Ops<T>(pub PhantomData<fn() -> T>);

struct SetupSys<T>(PhantomData<fn() -> T>);
impl<'a, T: TokComp> System<'a> for SetupSys<T> {
    type SystemData = WriteStorage<'a, T>;
    fn run(&mut self, _d: Self::SystemData) {}
}


thread_local! {
    /// alternate between the equivalent ways of reaching a storage
    pub static ALT: std::cell::Cell<u32> = std::cell::Cell::new(0);
}

/// `read_storage`, its alias `read_component`, or the system-data route
fn rd<T: Component>(world: &World) -> ReadStorage<'_, T> {
    match ALT.with(|a| a.get()) % 4 {
        0 => world.read_storage::<T>(),
        1 => world.read_component::<T>(),
        2 => world.system_data::<ReadStorage<T>>(),
        // a second handle cloned from the first
        _ => world.read_storage::<T>().clone(),
    }
}

fn wr<T: Component>(world: &World) -> WriteStorage<'_, T> {
    match ALT.with(|a| a.get()) % 3 {
        0 => world.write_storage::<T>(),
        1 => world.write_component::<T>(),
        _ => world.system_data::<WriteStorage<T>>(),
    }
}

fn alt() -> u32 {
    ALT.with(|a| a.get())
}

fn give_back<T: TokComp>(v: T) {
    v.on_return();
    crate::ledger::give_back(v);
}

fn optjs<T: TokComp>(o: Option<&T>) -> Value {
    match o {
        Some(c) => c.js(),
        None => absent(),
    }
}

impl<T: TokComp + Caps> StoreOps for Ops<T>
where
    T::Storage: Default + Sync,
{
    fn kind(&self) -> &'static str {
        T::KIND
    }
    fn zst(&self) -> bool {
        T::ZST
    }

    fn register(&self, world: &mut World, how: &str) {
        // "<method>+late": no reader of the event channel is registered at set-up; one is by a later
        // "newreader" operation (events before that are not expected to reach it)
        let late = how.ends_with("+late");
        let how = how.trim_end_matches("+late");
        match how {
            "register" => world.register::<T>(),
            "register_with" => world.register_with_storage::<_, T>(Default::default),
            "setup_read" => <ReadStorage<T> as SystemData>::setup(world),
            "setup_write" => <WriteStorage<T> as SystemData>::setup(world),
            "dispatcher" => {
                let mut d = DispatcherBuilder::new()
                    .with(SetupSys::<T>(PhantomData), "s", &[])
                    .build();
                d.setup(world);
            }
            "register_twice" => {
                world.register::<T>();
                world.register::<T>();
            }
            "preinsert" => {
                // the storage is put into the world as a plain resource first, then registered
                world.insert(specs::storage::MaskedStorage::<T>::new(Default::default()));
                world.register::<T>();
            }
            _ => panic!("harness: unknown registration method {}", how),
        }
        if !late {
            T::register_reader(world);
        }
    }

    fn tracked(&self) -> &'static str {
        T::tracked()
    }

    fn oob_insert(&self, world: &World, c: (u32, u32)) -> bool {
        let e = world.entities().entity((1 << 24) + 5);
        let v = T::new(c.0, c.1);
        let r = crate::util::catch(|| {
            let mut st = wr::<T>(world);
            let r = st.insert(e, v);
            if let Ok(Some(old)) = r {
                give_back(old);
            }
        });
        r.is_err()
    }

    fn wop(&self, world: &World, op: &Value, base: i64) -> Option<Value> {
        let k = op["k"].as_str().unwrap_or("");
        let v = op["v"].as_str().unwrap_or("join");
        let selm = op["sel"].as_u64().unwrap_or(0xffff);
        let wselm = op["wsel"].as_u64().unwrap_or(0xffff);
        let zst = T::ZST;
        // -2: not fetched mutably, -1: fetched but not written, >= 0: value written
        let sel = move |j: usize| -> i64 {
            if (selm >> (j % 16)) & 1 == 0 {
                -2
            } else if (wselm >> (j % 16)) & 1 == 0 {
                -1
            } else if zst {
                0
            } else {
                base + (j % 64) as i64
            }
        };
        let r = match k {
            "drain" => {
                let n = op["n"].as_i64().unwrap_or(-1);
                let ents = world.entities();
                let mut st = wr::<T>(world);
                let mut items = vec![];
                // other consumers of the draining join (the iterator's provided methods)
                if n < 0 && v == "count" {
                    // nothing is handed out: every drained value is destroyed by the iterator
                    let cnt = (&ents, st.drain()).join().count();
                    return Some(json!({"n": n, "items": items, "cnt": cnt}));
                }
                if n < 0 && v == "for_each" {
                    (&ents, st.drain()).join().for_each(|(e, c)| {
                        items.push(json!([e.id(), c.js()]));
                        give_back(c);
                    });
                    return Some(json!({"n": n, "items": items}));
                }
                let mut it = (&ents, st.drain()).join();
                loop {
                    if n >= 0 && items.len() as i64 >= n {
                        break;
                    }
                    match it.next() {
                        Some((e, c)) => {
                            items.push(json!([e.id(), c.js()]));
                            give_back(c);
                        }
                        None => break,
                    }
                }
                json!({"n": n, "items": items})
            }
            "clear" => {
                let mut st = wr::<T>(world);
                st.clear();
                json!({})
            }
            "newreader" => {
                // a (further) reader registers now: it is the one whose events are recorded from here on
                if T::tracked() == "none" {
                    return None;
                }
                T::register_reader(world);
                json!({})
            }
            "count" => {
                let st = rd::<T>(world);
                json!({"n": st.count(), "b": st.is_empty()})
            }
            "join" => {
                let ents = world.entities();
                let st = rd::<T>(world);
                let items: Vec<Value> = match v {
                    "lend" => {
                        let mut out = vec![];
                        let mut it = (&ents, &st).lend_join();
                        while let Some((e, c)) = it.next() {
                            out.push(json!([e.id(), c.js()]));
                        }
                        out
                    }
                    "lend_for_each" => {
                        let mut out = vec![];
                        (&ents, &st).lend_join().for_each(|(e, c)| out.push(json!([e.id(), c.js()])));
                        out
                    }
                    "par" => {
                        let out = std::sync::Mutex::new(vec![]);
                        (&ents, &st).par_join().for_each(|(e, c)| {
                            out.lock().unwrap().push((e.id(), json!([e.id(), c.js()])));
                        });
                        let mut o = out.into_inner().unwrap();
                        o.sort_by_key(|x| x.0);
                        o.into_iter().map(|x| x.1).collect()
                    }
                    _ => (&ents, &st).join().map(|(e, c)| json!([e.id(), c.js()])).collect(),
                };
                json!({"k":"join","items": items})
            }
            "joinmut" => {
                let items = match v {
                    "lend" => {
                        let ents = world.entities();
                        let mut st = wr::<T>(world);
                        let mut out = vec![];
                        let mut it = (&ents, &mut st).lend_join();
                        let mut j = 0;
                        while let Some((e, mut a)) = it.next() {
                            let before = (&*a).js();
                            let wv = sel(j).max(-1);
                            if wv >= 0 {
                                a.access_mut().set_val(wv as u32);
                            }
                            out.push(json!([e.id(), before, wv]));
                            j += 1;
                        }
                        out
                    }
                    _ => T::join_mut(world, v, &sel)?,
                };
                json!({"items": items})
            }
            "joinent" => {
                let ents = world.entities();
                let st = rd::<T>(world);
                let items: Vec<Value> = (&ents, &st)
                    .join()
                    .map(|(e, c)| json!([[e.id(), e.gen().id()], c.js()]))
                    .collect();
                json!({"items": items})
            }
            "entries" => {
                let ents = world.entities();
                let mut st = wr::<T>(world);
                let mut items = vec![];
                let mut it = (&ents, st.entries()).lend_join();
                while let Some((e, en)) = it.next() {
                    let c = match en {
                        StorageEntry::Occupied(o) => o.get().js(),
                        StorageEntry::Vacant(_) => absent(),
                    };
                    items.push(json!([[e.id(), e.gen().id()], c]));
                }
                json!({"items": items})
            }
            "restrict" => {
                let items: Vec<Value> = match v {
                    "read" => {
                        let ents = world.entities();
                        let st = rd::<T>(world);
                        let r = st.restrict();
                        // (5th element: the item's own entity looked up through the item)
                        (&ents, &r).join().map(|(e, it)| json!([e.id(), it.get().js(), false, -2, optjs(it.get_other(e))])).collect()
                    }
                    "read_lend" => {
                        let ents = world.entities();
                        let st = rd::<T>(world);
                        let r = st.restrict();
                        let mut out = vec![];
                        let mut j = (&ents, &r).lend_join();
                        while let Some((e, it)) = j.next() {
                            out.push(json!([e.id(), it.get().js(), false, -2, optjs(it.get_other(e))]));
                        }
                        out
                    }
                    "read_par" => {
                        let ents = world.entities();
                        let st = rd::<T>(world);
                        let r = st.restrict();
                        let out = std::sync::Mutex::new(vec![]);
                        (&ents, &r).par_join().for_each(|(e, it)| {
                            out.lock().unwrap().push((e.id(), json!([e.id(), it.get().js(), false, -2, optjs(it.get_other(e))])));
                        });
                        let mut o = out.into_inner().unwrap();
                        o.sort_by_key(|x| x.0);
                        o.into_iter().map(|x| x.1).collect()
                    }
                    "mut_lend" => {
                        let ents = world.entities();
                        let mut st = wr::<T>(world);
                        let mut r = st.restrict_mut();
                        let mut out = vec![];
                        let mut it = (&ents, &mut r).lend_join();
                        let mut j = 0;
                        while let Some((e, mut item)) = it.next() {
                            let read = item.get().js();
                            let own = optjs(item.get_other(e));
                            let wv = sel(j);
                            if wv >= -1 {
                                let mut a = item.get_mut();
                                if wv >= 0 {
                                    a.access_mut().set_val(wv as u32);
                                }
                            }
                            out.push(json!([e.id(), read, wv >= -1, wv, own]));
                            j += 1;
                        }
                        out
                    }
                    _ => T::restrict_mut(world, v, &sel)?,
                };
                json!({"mode": v, "items": items})
            }
            "slice" => T::slice(world)?,
            "slicemut" => T::slice_mut(world, &sel)?,
            "setemit" => {
                let b = op["b"].as_bool().unwrap_or(true);
                if !T::set_emit(world, b) {
                    return None;
                }
                match T::get_emit(world) {
                    Some(got) => json!({"b": b, "got": got}),
                    None => json!({"b": b}),
                }
            }
            "flagev" => {
                let kind = op["ev"].as_str().unwrap_or("M");
                let id = op["id"].as_u64().unwrap_or(0) as u32;
                if !T::flag_event(world, kind, id) {
                    return None;
                }
                json!({"ev": kind, "id": id})
            }
            _ => return None,
        };
        Some(r)
    }

    fn sop(&self, world: &World, path: &str, e: Entity, c: (u32, u32), wval: i64) -> Value {
        let write = |acc: &mut T| {
            if wval >= 0 {
                acc.set_val(wval as u32);
            }
        };
        match path {
            // ------------------------------------------------ reads
            "get" => {
                let st = rd::<T>(world);
                json!({"cls":"read","res": optjs(st.get(e))})
            }
            "wget" => {
                let st = wr::<T>(world);
                json!({"cls":"read","res": optjs(st.get(e))})
            }
            // the generic storage traits are implemented for the storages and for references to them
            "gget" => {
                let st = rd::<T>(world);
                if alt() % 2 == 0 {
                    json!({"cls":"read","res": optjs(specs::storage::GenericReadStorage::get(&st, e))})
                } else {
                    json!({"cls":"read","res": optjs(specs::storage::GenericReadStorage::get(&&st, e))})
                }
            }
            "gwget" => {
                let st = wr::<T>(world);
                if alt() % 2 == 0 {
                    json!({"cls":"read","res": optjs(specs::storage::GenericReadStorage::get(&&st, e))})
                } else {
                    json!({"cls":"read","res": optjs(specs::storage::GenericReadStorage::get(&st, e))})
                }
            }
            "contains" => {
                let st = rd::<T>(world);
                json!({"cls":"read","b": st.contains(e)})
            }
            "lend_get" => {
                let st = rd::<T>(world);
                let ents = world.entities();
                let mut it = (&st).lend_join();
                let r = it.get(e, &ents).map(|c| c.js()).unwrap_or_else(absent);
                json!({"cls":"read","res": r})
            }
            "lend2_get" => {
                let st = rd::<T>(world);
                let ents = world.entities();
                let mut it = (&ents, &st).lend_join();
                let r = it
                    .get(e, &ents)
                    .map(|(en, c)| {
                        if en != e {
                            json!([c.cid(), c.val(), "entity-mismatch"])
                        } else {
                            c.js()
                        }
                    })
                    .unwrap_or_else(absent);
                json!({"cls":"read","res": r})
            }
            "r_get_other" => {
                // asked from *every* item of the restricted join: the answer must
                // not depend on which entity the join is currently visiting
                let st = rd::<T>(world);
                let r = st.restrict();
                let ress: Vec<Value> = (&r).join().map(|item| optjs(item.get_other(e))).collect();
                if ress.is_empty() {
                    json!({"cls":"skip"})
                } else {
                    json!({"cls":"read","res": ress[0].clone(), "ress": ress})
                }
            }
            "rl_get_other" => {
                let st = rd::<T>(world);
                let r = st.restrict();
                let mut it = (&r).lend_join();
                let mut ress: Vec<Value> = vec![];
                while let Some(item) = it.next() {
                    ress.push(optjs(item.get_other(e)));
                }
                if ress.is_empty() {
                    json!({"cls":"skip"})
                } else {
                    json!({"cls":"read","res": ress[0].clone(), "ress": ress})
                }
            }
            "rm_get_other" => {
                let mut st = wr::<T>(world);
                let mut r = st.restrict_mut();
                let mut it = (&mut r).lend_join();
                let mut ress: Vec<Value> = vec![];
                while let Some(item) = it.next() {
                    ress.push(optjs(item.get_other(e)));
                }
                if ress.is_empty() {
                    json!({"cls":"skip"})
                } else {
                    json!({"cls":"read","res": ress[0].clone(), "ress": ress})
                }
            }
            "entry_get" => {
                let mut st = wr::<T>(world);
                let r = match st.entry(e) {
                    Ok(StorageEntry::Occupied(o)) => o.get().js(),
                    Ok(StorageEntry::Vacant(_)) => absent(),
                    Err(_) => absent(),
                };
                json!({"cls":"read","res": r})
            }
            "lentry_get" => {
                // the entry of an entity through the lending join over entries() alone (an unconstrained join)
                let mut st = wr::<T>(world);
                let ents = world.entities();
                let mut it = st.entries().lend_join();
                let r = match it.get(e, &ents) {
                    Some(StorageEntry::Occupied(o)) => o.get().js(),
                    Some(StorageEntry::Vacant(_)) => absent(),
                    None => absent(),
                };
                json!({"cls":"read","res": r})
            }
            "lmaybe_get" => {
                // lookup by entity through the lending join over (&storage).maybe() alone
                let st = rd::<T>(world);
                let ents = world.entities();
                let mut it = (&st).maybe().lend_join();
                let r = match it.get(e, &ents) {
                    Some(Some(c)) => c.js(),
                    Some(None) => absent(),
                    None => absent(),
                };
                json!({"cls":"read","res": r})
            }
            // ------------------------------------------------ mutable access
            "get_mut" => {
                let mut st = wr::<T>(world);
                let r = match st.get_mut(e) {
                    Some(mut a) => {
                        let before = (&*a).js();
                        if wval >= 0 {
                            write(a.access_mut());
                        }
                        before
                    }
                    None => absent(),
                };
                json!({"cls":"write","res": r})
            }
            "gget_mut" => {
                let mut st = wr::<T>(world);
                let mut stref = &mut st;
                let got = if alt() % 2 == 0 { GenericWriteStorage::get_mut(stref, e) } else { GenericWriteStorage::get_mut(&mut stref, e) };
                let r = match got {
                    Some(mut a) => {
                        let before = (&*a).js();
                        if wval >= 0 {
                            write(a.access_mut());
                        }
                        before
                    }
                    None => absent(),
                };
                json!({"cls":"write","res": r})
            }
            "lend_get_mut" => {
                let mut st = wr::<T>(world);
                let ents = world.entities();
                let mut it = (&mut st).lend_join();
                let r = match it.get(e, &ents) {
                    Some(mut a) => {
                        let before = (&*a).js();
                        if wval >= 0 {
                            write(a.access_mut());
                        }
                        before
                    }
                    None => absent(),
                };
                json!({"cls":"write","res": r})
            }
            "rm_get_other_mut" => {
                let mut st = wr::<T>(world);
                let mut r = st.restrict_mut();
                let mut it = (&mut r).lend_join();
                let mut ress: Vec<Value> = vec![];
                // what the item itself carries before and after the lookup of the other entity
                // (and whether the other entity is the item's own: same value identity)
                let mut owns: Vec<Value> = vec![];
                let mut first = true;
                // a refused handle whose index now belongs to another live entity: the same item is then
                // asked for that live entity (fetched, not written) and once more for the refused handle
                // - two lookups on ONE item, an accepted one first (pre_h / pre_ress / ress2)
                let live = world.entities().entity(e.id());
                let prime = live != e && world.entities().is_alive(live);
                let mut pre_ress: Vec<Value> = vec![];
                let mut ress2: Vec<Value> = vec![];
                while let Some(mut item) = it.next() {
                    let own_before = item.get().js();
                    let got = match item.get_other_mut(e) {
                        Some(mut a) => {
                            let before = (&*a).js();
                            if wval >= 0 {
                                write(a.access_mut());
                            }
                            // after the first write the value reads back as written
                            if first { before } else { json!([before[0], before[1]]) }
                        }
                        None => absent(),
                    };
                    if prime && got == absent() {
                        pre_ress.push(match item.get_other_mut(live) {
                            Some(a) => (&*a).js(),
                            None => absent(),
                        });
                        ress2.push(match item.get_other_mut(e) {
                            Some(a) => (&*a).js(),
                            None => absent(),
                        });
                    }
                    let own_after = item.get().js();
                    let same = got != absent() && got[0] == own_before[0];
                    owns.push(json!([own_before, own_after, same]));
                    ress.push(got);
                    first = false;
                }
                if ress.is_empty() {
                    json!({"cls":"skip"})
                } else if !pre_ress.is_empty() {
                    json!({"cls":"write","res": ress[0].clone(), "ress_w": ress, "owns": owns,
                           "pre_h": [live.id(), live.gen().id()], "pre_ress": pre_ress, "ress2": ress2})
                } else {
                    json!({"cls":"write","res": ress[0].clone(), "ress_w": ress, "owns": owns})
                }
            }
            // ------------------------------------------------ the whole value replaced through a mutable access
            // (`*access = new`): the old value is destroyed by the assignment, the new one takes its place
            "get_mut_replace" => {
                let mut st = wr::<T>(world);
                let r = match st.get_mut(e) {
                    Some(mut a) => {
                        let before = (&*a).js();
                        *a.access_mut() = T::new(c.0, c.1);
                        before
                    }
                    None => absent(),
                };
                json!({"cls":"replace","res": r})
            }
            "rm_get_other_mut_replace" => {
                // through the first item of the lending join over a mutable restricted view
                let mut st = wr::<T>(world);
                let mut r = st.restrict_mut();
                let mut it = (&mut r).lend_join();
                match it.next() {
                    Some(mut item) => {
                        let res = match item.get_other_mut(e) {
                            Some(mut a) => {
                                let before = (&*a).js();
                                *a.access_mut() = T::new(c.0, c.1);
                                before
                            }
                            None => absent(),
                        };
                        json!({"cls":"replace","res": res})
                    }
                    None => json!({"cls":"skip"}),
                }
            }
            "entry_get_mut" => {
                let mut st = wr::<T>(world);
                let r = match st.entry(e) {
                    Ok(StorageEntry::Occupied(mut o)) => {
                        let mut a = o.get_mut();
                        let before = (&*a).js();
                        if wval >= 0 {
                            write(a.access_mut());
                        }
                        before
                    }
                    _ => absent(),
                };
                json!({"cls":"write","res": r})
            }
            "entry_into_mut" => {
                let mut st = wr::<T>(world);
                let r = match st.entry(e) {
                    Ok(StorageEntry::Occupied(o)) => {
                        let mut a = o.into_mut();
                        let before = (&*a).js();
                        if wval >= 0 {
                            write(a.access_mut());
                        }
                        before
                    }
                    _ => absent(),
                };
                json!({"cls":"write","res": r})
            }
            // ------------------------------------------------ insertion
            "insert" => {
                let mut st = wr::<T>(world);
                let r = match st.insert(e, T::new(c.0, c.1)) {
                    Ok(Some(old)) => {
                        let j = old.js();
                        give_back(old);
                        j
                    }
                    Ok(None) => absent(),
                    Err(_) => refused(),
                };
                json!({"cls":"insert","res": r})
            }
            "ginsert" => {
                let mut st = wr::<T>(world);
                let mut stref = &mut st;
                let got = if alt() % 2 == 0 {
                    GenericWriteStorage::insert(stref, e, T::new(c.0, c.1))
                } else {
                    GenericWriteStorage::insert(&mut stref, e, T::new(c.0, c.1))
                };
                let r = match got {
                    Ok(Some(old)) => {
                        let j = old.js();
                        give_back(old);
                        j
                    }
                    Ok(None) => absent(),
                    Err(_) => refused(),
                };
                json!({"cls":"insert","res": r})
            }
            "entry_replace" => {
                let mut st = wr::<T>(world);
                let v = T::new(c.0, c.1);
                let r = match st.entry(e) {
                    Ok(en) => match en.replace(v) {
                        Some(old) => {
                            let j = old.js();
                            give_back(old);
                            j
                        }
                        None => absent(),
                    },
                    Err(_) => {
                        give_back(v);
                        refused()
                    }
                };
                json!({"cls":"insert","res": r})
            }
            "entry_insert" => {
                let mut st = wr::<T>(world);
                let v = T::new(c.0, c.1);
                let r = match st.entry(e) {
                    Ok(StorageEntry::Occupied(mut o)) => {
                        let old = o.insert(v);
                        let j = old.js();
                        give_back(old);
                        j
                    }
                    Ok(StorageEntry::Vacant(va)) => {
                        va.insert(v);
                        absent()
                    }
                    Err(_) => {
                        give_back(v);
                        refused()
                    }
                };
                json!({"cls":"insert","res": r})
            }
            "or_insert" => {
                let mut st = wr::<T>(world);
                let v = T::new(c.0, c.1);
                let r = match st.entry(e) {
                    Ok(en) => {
                        let a = en.or_insert(v);
                        (&*a).js()
                    }
                    Err(_) => {
                        give_back(v);
                        refused()
                    }
                };
                json!({"cls":"orins","res": r})
            }
            "or_insert_with" => {
                let mut st = wr::<T>(world);
                let v = T::new(c.0, c.1);
                let r = match st.entry(e) {
                    Ok(en) => {
                        let a = en.or_insert_with(move || v);
                        (&*a).js()
                    }
                    Err(_) => {
                        give_back(v);
                        refused()
                    }
                };
                json!({"cls":"orins","res": r})
            }
            // ------------------------------------------------ removal
            "remove" => {
                let mut st = wr::<T>(world);
                let r = match st.remove(e) {
                    Some(old) => {
                        let j = old.js();
                        give_back(old);
                        j
                    }
                    None => absent(),
                };
                json!({"cls":"remove","res": r})
            }
            "entry_remove" => {
                let mut st = wr::<T>(world);
                let r = match st.entry(e) {
                    Ok(StorageEntry::Occupied(o)) => {
                        let old = o.remove();
                        let j = old.js();
                        give_back(old);
                        j
                    }
                    _ => absent(),
                };
                json!({"cls":"remove","res": r})
            }
            // ------------------------------------------------ get-or-default
            "gmod" => {
                let mut st = wr::<T>(world);
                let mut stref = &mut st;
                let got = if alt() % 2 == 0 {
                    GenericWriteStorage::get_mut_or_default(stref, e)
                } else {
                    GenericWriteStorage::get_mut_or_default(&mut stref, e)
                };
                let r = match got {
                    Some(mut a) => {
                        let before = (&*a).js();
                        if wval >= 0 {
                            write(a.access_mut());
                        }
                        before
                    }
                    None => absent(),
                };
                json!({"cls":"gmod","res": r})
            }
            "gremove" => {
                // GenericWriteStorage::remove returns nothing: the library destroys the value
                let mut st = wr::<T>(world);
                let mut stref = &mut st;
                if alt() % 2 == 0 {
                    GenericWriteStorage::remove(stref, e);
                } else {
                    GenericWriteStorage::remove(&mut stref, e);
                }
                json!({"cls":"gremove"})
            }
            _ => panic!("harness: unknown storage path {}", path),
        }
    }

    fn sweep(&self, world: &World, hs: &[Entity]) -> Value {
        let st = rd::<T>(world);
        let mask: Vec<u32> = {
            use specs::hibitset::BitSetLike;
            st.mask().iter().collect()
        };
        let get: Vec<Value> = hs.iter().map(|&h| optjs(st.get(h))).collect();
        // aliveness as the storage's own fetched entities see it
        let ealive: Vec<bool> = hs.iter().map(|&h| st.fetched_entities().is_alive(h)).collect();
        drop(st);
        match T::read_events(world) {
            Some(evs) => json!({"mask": mask, "get": get, "ealive": ealive, "evs": evs}),
            None => json!({"mask": mask, "get": get, "ealive": ealive}),
        }
    }

    fn with_builder<'a>(&self, b: EntityBuilder<'a>, c: (u32, u32)) -> EntityBuilder<'a> {
        if ALT.with(|a| a.get()) % 2 == 1 {
            b.maybe_with(Some(T::new(c.0, c.1)))
        } else {
            b.with(T::new(c.0, c.1))
        }
    }
    fn without_builder<'a>(&self, b: EntityBuilder<'a>) -> EntityBuilder<'a> {
        b.maybe_with(None::<T>)
    }

    fn with_res_builder<'a>(
        &self,
        b: EntityResBuilder<'a>,
        world: &World,
        c: (u32, u32),
    ) -> EntityResBuilder<'a> {
        let mut st = wr::<T>(world);
        b.with(T::new(c.0, c.1), &mut st)
    }

    fn with_lazy_builder<'a>(&self, b: LazyBuilder<'a>, c: (u32, u32)) -> LazyBuilder<'a> {
        b.with(T::new(c.0, c.1))
    }

    fn lazy_insert(&self, lazy: &LazyUpdate, e: Entity, c: (u32, u32)) {
        lazy.insert(e, T::new(c.0, c.1));
    }

    fn lazy_insert_all(&self, lazy: &LazyUpdate, items: Vec<(Entity, (u32, u32))>) {
        let v: Vec<(Entity, T)> = items
            .into_iter()
            .map(|(e, c)| (e, T::new(c.0, c.1)))
            .collect();
        lazy.insert_all(v);
    }

    fn lazy_remove(&self, lazy: &LazyUpdate, e: Entity) {
        lazy.remove::<T>(e);
    }
}

pub fn ops_for(kind: &str, n: u8) -> Box<dyn StoreOps> {
    macro_rules! pick {
        ($($k:expr => $t:ident),*) => {
            match (kind, n) {
                $( ($k, 0) => Box::new(Ops::<$t<0>>(PhantomData)) as Box<dyn StoreOps>,
                   ($k, 1) => Box::new(Ops::<$t<1>>(PhantomData)) as Box<dyn StoreOps>,
                   ($k, 2) => Box::new(Ops::<$t<2>>(PhantomData)) as Box<dyn StoreOps>, )*
                _ => panic!("harness: unknown storage kind {} / {}", kind, n),
            }
        };
    }
    pick!("vec" => CVec, "dense" => CDense, "hash" => CHash, "btree" => CBTree, "defvec" => CDefVec,
          "null" => CNull, "f_vec" => CFVec, "f_dense" => CFDense, "f_hash" => CFHash,
          "f_btree" => CFBTree, "f_defvec" => CFDefVec, "f_null" => CFNull, "d_vec" => CDVec,
          "d_dense" => CDDense, "d_hash" => CDHash, "d_btree" => CDBTree, "d_defvec" => CDDefVec,
          "d_null" => CDNull, "p_vec" => CPVec, "p_dense" => CPDense, "p_hash" => CPHash,
          "p_btree" => CPBTree, "p_defvec" => CPDefVec, "pf_hash" => CPFHash)
}
