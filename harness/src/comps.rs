//! Instrumented component types: one per storage kind, each in two copies
//! (const parameter N) so that a world can hold two storages of one kind.

use crate::ledger;
use specs::prelude::*;
use specs::storage::{BTreeStorage, DerefFlaggedStorage};

pub trait TokComp: Component + Send + Sync + Default + Sized + 'static {
    const ZST: bool;
    const KIND: &'static str;
    fn new(cid: u32, val: u32) -> Self;
    fn cid(&self) -> u32;
    fn val(&self) -> u32;
    fn set_val(&mut self, v: u32);
    fn js(&self) -> serde_json::Value {
        serde_json::json!([self.cid(), self.val()])
    }
    /// the library handed this value back to the caller, who is about to drop it
    fn on_return(&self) {}
}

macro_rules! tok_comp {
    ($name:ident, $kind:expr, $storage:ty) => {
        #[derive(Debug)]
        pub struct $name<const N: u8> {
            cid: u32,
            val: u32,
            /// identity of a `Default`-created instance (a filler of DefaultVecStorage, the value made
            /// by get_mut_or_default): never shown, only used to notice that one is destroyed twice
            fid: u32,
        }
        impl<const N: u8> Component for $name<N> {
            type Storage = $storage;
        }
        impl<const N: u8> Default for $name<N> {
            fn default() -> Self {
                $name { cid: 0, val: 0, fid: ledger::filler_created() }
            }
        }
        impl<const N: u8> Drop for $name<N> {
            fn drop(&mut self) {
                if self.cid != 0 {
                    ledger::dropped(self.cid);
                } else if self.fid != 0 {
                    ledger::filler_dropped(self.fid);
                }
            }
        }
        impl<const N: u8> TokComp for $name<N> {
            const ZST: bool = false;
            const KIND: &'static str = $kind;
            fn new(cid: u32, val: u32) -> Self {
                ledger::created(cid);
                $name { cid, val, fid: 0 }
            }
            fn cid(&self) -> u32 {
                self.cid
            }
            fn val(&self) -> u32 {
                self.val
            }
            fn set_val(&mut self, v: u32) {
                self.val = v;
            }
        }
    };
}

macro_rules! zst_comp {
    ($name:ident, $kind:expr, $storage:ty) => {
        #[derive(Debug)]
        pub struct $name<const N: u8>;
        impl<const N: u8> Component for $name<N> {
            type Storage = $storage;
        }
        impl<const N: u8> Default for $name<N> {
            fn default() -> Self {
                ledger::zcreated();
                $name
            }
        }
        impl<const N: u8> Drop for $name<N> {
            fn drop(&mut self) {
                ledger::zdropped();
            }
        }
        impl<const N: u8> TokComp for $name<N> {
            const ZST: bool = true;
            const KIND: &'static str = $kind;
            fn new(_cid: u32, _val: u32) -> Self {
                ledger::zcreated();
                $name
            }
            fn cid(&self) -> u32 {
                0
            }
            fn val(&self) -> u32 {
                0
            }
            fn set_val(&mut self, _v: u32) {}
        }
    };
}


/// Plain-data components: no destructor (`needs_drop` is false), so their
/// destruction cannot be observed; only creation and being handed back are
/// recorded (see `ledger::settle_plain`).
macro_rules! plain_comp {
    ($name:ident, $kind:expr, $storage:ty) => {
        #[derive(Debug, Clone, Copy)]
        pub struct $name<const N: u8> {
            cid: u32,
            val: u32,
        }
        impl<const N: u8> Component for $name<N> {
            type Storage = $storage;
        }
        impl<const N: u8> Default for $name<N> {
            fn default() -> Self {
                $name { cid: 0, val: 0 }
            }
        }
        impl<const N: u8> TokComp for $name<N> {
            const ZST: bool = false;
            const KIND: &'static str = $kind;
            fn new(cid: u32, val: u32) -> Self {
                ledger::created_plain(cid);
                $name { cid, val }
            }
            fn cid(&self) -> u32 {
                self.cid
            }
            fn val(&self) -> u32 {
                self.val
            }
            fn set_val(&mut self, v: u32) {
                self.val = v;
            }
            fn on_return(&self) {
                ledger::returned_plain(self.cid);
            }
        }
    };
}

tok_comp!(CVec, "vec", VecStorage<Self>);
tok_comp!(CDense, "dense", DenseVecStorage<Self>);
tok_comp!(CHash, "hash", HashMapStorage<Self>);
tok_comp!(CBTree, "btree", BTreeStorage<Self>);
tok_comp!(CDefVec, "defvec", DefaultVecStorage<Self>);
zst_comp!(CNull, "null", NullStorage<Self>);

tok_comp!(CFVec, "f_vec", FlaggedStorage<Self, VecStorage<Self>>);
tok_comp!(CFDense, "f_dense", FlaggedStorage<Self, DenseVecStorage<Self>>);
tok_comp!(CFHash, "f_hash", FlaggedStorage<Self, HashMapStorage<Self>>);
tok_comp!(CFBTree, "f_btree", FlaggedStorage<Self, BTreeStorage<Self>>);
tok_comp!(CFDefVec, "f_defvec", FlaggedStorage<Self, DefaultVecStorage<Self>>);
zst_comp!(CFNull, "f_null", FlaggedStorage<Self, NullStorage<Self>>);

tok_comp!(CDVec, "d_vec", DerefFlaggedStorage<Self, VecStorage<Self>>);
tok_comp!(CDDense, "d_dense", DerefFlaggedStorage<Self, DenseVecStorage<Self>>);
tok_comp!(CDHash, "d_hash", DerefFlaggedStorage<Self, HashMapStorage<Self>>);
tok_comp!(CDBTree, "d_btree", DerefFlaggedStorage<Self, BTreeStorage<Self>>);
tok_comp!(CDDefVec, "d_defvec", DerefFlaggedStorage<Self, DefaultVecStorage<Self>>);
zst_comp!(CDNull, "d_null", DerefFlaggedStorage<Self, NullStorage<Self>>);

plain_comp!(CPVec, "p_vec", VecStorage<Self>);
plain_comp!(CPDense, "p_dense", DenseVecStorage<Self>);
plain_comp!(CPHash, "p_hash", HashMapStorage<Self>);
plain_comp!(CPBTree, "p_btree", BTreeStorage<Self>);
plain_comp!(CPDefVec, "p_defvec", DefaultVecStorage<Self>);
plain_comp!(CPFHash, "pf_hash", FlaggedStorage<Self, HashMapStorage<Self>>);

pub const KINDS: &[&str] = &[
    "vec", "dense", "hash", "btree", "defvec", "null", "f_vec", "f_dense", "f_hash", "f_btree",
    "f_defvec", "f_null", "d_vec", "d_dense", "d_hash", "d_btree", "d_defvec", "d_null",
    "p_vec", "p_dense", "p_hash", "p_btree", "p_defvec", "pf_hash",
];
