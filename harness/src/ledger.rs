//! Process-wide ledger of instrumented component values (C08 / C19).
//!
//! Every instrumented component carries a unique `cid` (> 0; 0 is the
//! `Default` filler and is not tracked).  The ledger records, per cid,
//! whether the value is currently alive somewhere, was destroyed by library
//! code, or was handed back to the harness (which then drops it with
//! `give_back`).  Anything else - a second drop, the drop of a value that was
//! never created (garbage read from an unwritten slot) - is an anomaly.
//!
//! The ledger never interprets; it only counts.  The verdict is TLC's.

use serde_json::{json, Value};
use std::cell::Cell;
use std::collections::HashMap;
use std::sync::Mutex;

#[derive(Clone, Copy, PartialEq, Eq, Debug)]
pub enum St {
    Held,
    Destroyed,
    Returned,
}

#[derive(Default)]
pub struct Ledger {
    pub st: HashMap<u32, St>,
    pub anomalies: Vec<String>,
    pub zcreated: u64,
    pub zlib: u64,
    pub zharn: u64,
    /// panic on the k-th library drop from now (1-based); 0 = disarmed
    pub panic_in: u32,
    /// cids whose destructor panicked
    pub panicked: Vec<u32>,
    /// library drops since last reset of this counter
    pub lib_drops: u64,
    /// cids of plain-data values (no destructor)
    pub plain: std::collections::HashSet<u32>,
    /// `Default`-created instances alive at the moment (by filler id)
    pub fillers: std::collections::HashSet<u32>,
    pub next_filler: u32,
}

static LEDGER: Mutex<Option<Ledger>> = Mutex::new(None);

thread_local! {
    static HARNESS_DROP: Cell<bool> = Cell::new(false);
}

fn with<R>(f: impl FnOnce(&mut Ledger) -> R) -> R {
    let mut g = LEDGER.lock().unwrap_or_else(|e| e.into_inner());
    if g.is_none() {
        *g = Some(Ledger::default());
    }
    f(g.as_mut().unwrap())
}

pub fn reset() {
    with(|l| *l = Ledger::default());
}

pub fn created(cid: u32) {
    if cid == 0 {
        return;
    }
    with(|l| {
        if l.st.insert(cid, St::Held).is_some() {
            l.anomalies.push(format!("cid {} created twice", cid));
        }
    });
}

/// a plain-data value (no destructor) was created
pub fn created_plain(cid: u32) {
    if cid == 0 {
        return;
    }
    created(cid);
    with(|l| {
        l.plain.insert(cid);
    });
}

/// a plain-data value was handed back to the harness
pub fn returned_plain(cid: u32) {
    if cid == 0 {
        return;
    }
    with(|l| match l.st.get(&cid).copied() {
        Some(St::Held) => {
            l.st.insert(cid, St::Returned);
        }
        Some(s) => {
            if l.anomalies.len() < 64 {
                l.anomalies.push(format!("cid {} handed back again (was {:?})", cid, s));
            }
        }
        None => {
            if l.anomalies.len() < 64 {
                l.anomalies.push(format!("unknown plain value cid {} handed back", cid));
            }
        }
    });
}

/// After the world is gone: a plain-data value that was never handed back has
/// been destroyed by the library at some unobservable point.
pub fn settle_plain() {
    with(|l| {
        let ids: Vec<u32> = l.plain.iter().copied().collect();
        for c in ids {
            if l.st.get(&c) == Some(&St::Held) {
                l.st.insert(c, St::Destroyed);
            }
        }
    });
}

/// a `Default` instance was created (by the library or by the harness): it gets an identity of its own
pub fn filler_created() -> u32 {
    with(|l| {
        l.next_filler += 1;
        let f = l.next_filler;
        l.fillers.insert(f);
        f
    })
}

/// a `Default` instance is destroyed: a library-side drop like any other (it can be the one an injected
/// panic hits); destroying the same instance twice is an anomaly
pub fn filler_dropped(fid: u32) {
    let harness = HARNESS_DROP.with(|h| h.get());
    let do_panic = with(|l| {
        if !l.fillers.remove(&fid) && fid <= l.next_filler {
            if l.anomalies.len() < 64 {
                l.anomalies.push(format!("default-created value #{} dropped again", fid));
            }
        }
        if !harness {
            l.lib_drops += 1;
            if l.panic_in > 0 {
                l.panic_in -= 1;
                if l.panic_in == 0 && !std::thread::panicking() {
                    l.panicked.push(0);
                    return true;
                }
            }
        }
        false
    });
    if do_panic {
        panic!("VERIF-INJECTED destructor panic (default-created value #{})", fid);
    }
}

pub fn zcreated() {
    with(|l| l.zcreated += 1);
}

/// arm: the k-th library-side drop from now panics (C19)
pub fn arm_panic(k: u32) {
    with(|l| l.panic_in = k);
}

pub fn disarm() -> u32 {
    with(|l| {
        let k = l.panic_in;
        l.panic_in = 0;
        k
    })
}

pub fn panicked() -> Vec<u32> {
    with(|l| l.panicked.clone())
}

/// Called from `Drop` of instrumented components.
pub fn dropped(cid: u32) {
    let harness = HARNESS_DROP.with(|h| h.get());
    let do_panic = with(|l| {
        match l.st.get(&cid).copied() {
            Some(St::Held) => {
                l.st.insert(cid, if harness { St::Returned } else { St::Destroyed });
            }
            Some(s) => {
                if l.anomalies.len() < 64 {
                    l.anomalies.push(format!("cid {} dropped again (was {:?})", cid, s));
                }
            }
            None => {
                if l.anomalies.len() < 64 {
                    l.anomalies.push(format!("drop of unknown value cid {}", cid));
                }
            }
        }
        if !harness {
            l.lib_drops += 1;
            if l.panic_in > 0 {
                l.panic_in -= 1;
                if l.panic_in == 0 && !std::thread::panicking() {
                    l.panicked.push(cid);
                    return true;
                }
            }
        }
        false
    });
    if do_panic {
        panic!("VERIF-INJECTED destructor panic cid={}", cid);
    }
}

pub fn zdropped() {
    let harness = HARNESS_DROP.with(|h| h.get());
    let do_panic = with(|l| {
        if harness {
            l.zharn += 1;
        } else {
            l.zlib += 1;
            l.lib_drops += 1;
            if l.panic_in > 0 {
                l.panic_in -= 1;
                if l.panic_in == 0 && !std::thread::panicking() {
                    l.panicked.push(0);
                    return true;
                }
            }
        }
        false
    });
    if do_panic {
        panic!("VERIF-INJECTED destructor panic zst");
    }
}

/// Drop a value that the library handed back to the caller.
pub fn give_back<T>(v: T) {
    let prev = HARNESS_DROP.with(|h| h.replace(true));
    drop(v);
    HARNESS_DROP.with(|h| h.set(prev));
}

pub fn state_of(cid: u32) -> Option<St> {
    with(|l| l.st.get(&cid).copied())
}

pub fn lib_drops() -> u64 {
    with(|l| l.lib_drops)
}

pub fn dump() -> Value {
    with(|l| {
        let mut held = vec![];
        let mut des = vec![];
        let mut ret = vec![];
        for (c, s) in l.st.iter() {
            match s {
                St::Held => held.push(*c),
                St::Destroyed => des.push(*c),
                St::Returned => ret.push(*c),
            }
        }
        held.sort();
        des.sort();
        ret.sort();
        json!({"held": held, "destroyed": des, "returned": ret,
               "anomalies": l.anomalies, "zc": l.zcreated, "zlib": l.zlib, "zharn": l.zharn,
               "panicked": l.panicked})
    })
}
