//! World domain executor: runs op scripts (symbolic handles) against a real
//! `specs::World` and records what the real code did as ndjson events for
//! World_Trace.tla.  The executor never predicts anything.

use crate::ledger;
use crate::store_ops::{ops_for, StoreOps};
use crate::util::{catch, Out};
use serde_json::{json, Value};
use specs::prelude::*;
use std::sync::{Arc, Mutex};

pub struct HState {
    pub handles: Vec<Entity>,
    pub next_cid: u32,
    pub next_val: u32,
    pub next_lazy: u32,
    pub opno: u64,
    pub log: Vec<String>,
    pub sweep: SweepMode,
    pub failed: bool,
    /// the entity of a builder whose chain is running (a panic may interrupt it)
    pub pending_builder: Option<Entity>,
    /// entities of builders whose chain was interrupted by a panic: no creation event reports them,
    /// the fault event does; they are observed like the script's own handles
    pub orphans: Vec<Entity>,
}

#[derive(Clone, Copy, PartialEq)]
pub enum SweepMode {
    Full,
    Light,
    Off,
}

pub struct Ctx {
    pub st: Mutex<HState>,
    pub stores: Vec<Box<dyn StoreOps>>,
}

pub type Cx = Arc<Ctx>;

fn lock(cx: &Cx) -> std::sync::MutexGuard<'_, HState> {
    cx.st.lock().unwrap_or_else(|e| e.into_inner())
}

pub fn hj(e: Entity) -> Value {
    json!([e.id(), e.gen().id()])
}

fn emit(cx: &Cx, mut ev: Value, world: Option<&World>) {
    emit_w(cx, &mut ev, world);
}

fn emit_w(cx: &Cx, ev: &mut Value, world: Option<&World>) {
    if let Some(w) = world {
        let mode = lock(cx).sweep;
        if mode != SweepMode::Off {
            let obs = sweep(cx, w, mode);
            ev.as_object_mut().unwrap().insert("obs".into(), obs);
        }
    }
    lock(cx).log.push(ev.to_string());
}

/// which handles to probe: all while there are few, otherwise the recent
/// ones plus a deterministic sample of older ones
fn probe_set(st: &HState) -> Vec<Entity> {
    let n = st.handles.len();
    if n <= 40 {
        let mut v = st.handles.clone();
        v.extend(st.orphans.iter().rev().take(4));
        return v;
    }
    let mut v: Vec<Entity> = Vec::with_capacity(40);
    let mut x = st.opno.wrapping_mul(6364136223846793005).wrapping_add(1442695040888963407);
    for _ in 0..16 {
        x = x.wrapping_mul(6364136223846793005).wrapping_add(1442695040888963407);
        let k = ((x >> 33) as usize) % (n - 24);
        if !v.contains(&st.handles[k]) {
            v.push(st.handles[k]);
        }
    }
    v.extend_from_slice(&st.handles[n - 24..]);
    v.extend(st.orphans.iter().rev().take(4));
    v
}

fn sweep(cx: &Cx, world: &World, mode: SweepMode) -> Value {
    let hs = { probe_set(&lock(cx)) };
    let ents = world.entities();
    let alive: Vec<bool> = hs.iter().map(|&h| ents.is_alive(h)).collect();
    let join: Vec<Value> = (&ents).join().map(hj).collect();
    // the lending iteration of the entities resource is a separate implementation
    let joinl: Vec<Value> = {
        let mut v = vec![];
        let mut it = (&ents).lend_join();
        while let Some(e) = it.next() {
            v.push(hj(e));
        }
        v
    };
    // ... and so is the parallel one (delivered in any order: sorted here)
    let joinp: Vec<Value> = {
        use rayon::iter::ParallelIterator;
        let mut v: Vec<Entity> = (&ents).par_join().collect();
        v.sort();
        v.into_iter().map(hj).collect()
    };
    let walive: Vec<u8> = if mode == SweepMode::Full {
        hs.iter()
            .map(|&h| if world.is_alive(h) { 1 } else { 0 })
            .collect()
    } else {
        hs.iter().map(|_| 2).collect()
    };
    drop(ents);
    let st: Vec<Value> = cx.stores.iter().map(|s| s.sweep(world, &hs)).collect();
    json!({"hs": hs.iter().map(|&h| hj(h)).collect::<Vec<_>>(), "alive": alive, "walive": walive, "join": join, "joinl": joinl, "joinp": joinp, "st": st})
}

fn handle(cx: &Cx, k: &Value) -> Option<Entity> {
    let k = k.as_u64()? as usize;
    lock(cx).handles.get(k).copied()
}

fn new_c(cx: &Cx, s: usize) -> (u32, u32) {
    if cx.stores[s].zst() {
        return (0, 0);
    }
    let mut g = lock(cx);
    g.next_cid += 1;
    g.next_val += 1;
    (g.next_cid, g.next_val)
}

fn new_val(cx: &Cx, s: usize) -> i64 {
    if cx.stores[s].zst() {
        return 0;
    }
    let mut g = lock(cx);
    g.next_val += 1;
    g.next_val as i64
}

fn with_list(cx: &Cx, op: &Value) -> Vec<(usize, (u32, u32))> {
    op.get("with")
        .and_then(|w| w.as_array())
        .map(|a| {
            a.iter()
                .filter_map(|s| s.as_u64())
                .map(|s| s as usize)
                .filter(|&s| s < cx.stores.len())
                .map(|s| (s, new_c(cx, s)))
                .collect()
        })
        .unwrap_or_default()
}

fn withj(w: &[(usize, (u32, u32))]) -> Value {
    Value::Array(
        w.iter()
            .map(|(s, c)| json!([s + 1, [c.0, c.1]]))
            .collect(),
    )
}

fn created(cx: &Cx, world: &World, path: &str, e: Entity, with: &[(usize, (u32, u32))]) {
    created_obs(cx, world, path, e, with, true)
}

/// `obs = false` for all but the last entity of a batch creation: the sweep
/// would already see the later entities of the batch
fn created_obs(cx: &Cx, world: &World, path: &str, e: Entity, with: &[(usize, (u32, u32))], obs: bool) {
    lock(cx).handles.push(e);
    emit(
        cx,
        json!({"op":"Created","path":path,"h":hj(e),"with":withj(with)}),
        if obs { Some(&*world) } else { None },
    );
}

/// Execute one op. `world` is exclusive: top level or inside a lazy closure.
pub fn exec_op(cx: &Cx, world: &mut World, op: &Value) {
    {
        let mut g = lock(cx);
        g.opno += 1;
        crate::store_ops::ALT.with(|a| a.set(g.opno as u32));
    }
    let o = op["o"].as_str().unwrap_or("");
    match o {
        "create" => {
            let with = with_list(cx, op);
            let mut b = world.create_entity();
            for (s, c) in &with {
                b = cx.stores[*s].with_builder(b, *c);
            }
            if op["o"] == "create" && crate::store_ops::ALT.with(|a| a.get()) % 2 == 1 {
                for s in 0..cx.stores.len() {
                    if !with.iter().any(|(w, _)| *w == s) {
                        b = cx.stores[s].without_builder(b);
                    }
                }
            }
            let e = b.build();
            created(cx, world, "now", e, &with);
        }
        "create_unchecked" => {
            let with = with_list(cx, op);
            let e = {
                let mut b = world.create_entity_unchecked();
                for (s, c) in &with {
                    b = cx.stores[*s].with_builder(b, *c);
                }
                b.build()
            };
            created(cx, world, "now", e, &with);
        }
        "create_drop" => {
            let with = with_list(cx, op);
            let e = {
                let mut b = world.create_entity();
                for (s, c) in &with {
                    b = cx.stores[*s].with_builder(b, *c);
                }
                let e = b.entity;
                drop(b);
                e
            };
            created(cx, world, "drop", e, &with);
        }
        "create_iter" => {
            let n = op["n"].as_u64().unwrap_or(1) as usize;
            let es: Vec<Entity> = world.create_iter().take(n).collect();
            let n = es.len();
            for (i, e) in es.into_iter().enumerate() {
                created_obs(cx, world, "iter", e, &[], i + 1 == n);
            }
        }
        "ecreate" => {
            let e = world.entities().create();
            created(cx, world, "ecreate", e, &[]);
        }
        "ecreate_iter" => {
            let n = op["n"].as_u64().unwrap_or(1) as usize;
            let es: Vec<Entity> = world.entities().create_iter().take(n).collect();
            let n = es.len();
            for (i, e) in es.into_iter().enumerate() {
                created_obs(cx, world, "eiter", e, &[], i + 1 == n);
            }
        }
        "ebuild" | "ebuild_drop" => {
            let with = with_list(cx, op);
            let e = {
                let ents = world.entities();
                let mut b = ents.build_entity();
                lock(cx).pending_builder = Some(b.entity);
                for (s, c) in &with {
                    b = cx.stores[*s].with_res_builder(b, world, *c);
                }
                lock(cx).pending_builder = None;
                if o == "ebuild" {
                    b.build()
                } else {
                    let e = b.entity;
                    drop(b);
                    e
                }
            };
            created(cx, world, if o == "ebuild" { "ebuild" } else { "ebuild_drop" }, e, &with);
        }
        "lcreate" => {
            let with = with_list(cx, op);
            let e = {
                let ents = world.entities();
                let lazy = world.read_resource::<LazyUpdate>();
                let mut b = lazy.create_entity(&ents);
                for (s, c) in &with {
                    b = cx.stores[*s].with_lazy_builder(b, *c);
                }
                b.build()
            };
            created(cx, world, "lazy", e, &with);
        }
        "delete" => {
            if let Some(e) = handle(cx, &op["h"]) {
                let r = world.delete_entity(e);
                emit(cx, json!({"op":"Delete","h":hj(e),"ok":r.is_ok()}), Some(&*world));
            }
        }
        "delete_batch" => {
            let hs: Vec<Entity> = op["hs"]
                .as_array()
                .map(|a| a.iter().filter_map(|k| handle(cx, k)).collect())
                .unwrap_or_default();
            let r = world.delete_entities(&hs);
            let (ok, pos) = match &r {
                Ok(()) => (true, -1i64),
                Err((_, p)) => (false, *p as i64),
            };
            emit(
                cx,
                json!({"op":"DeleteBatch","hs":hs.iter().map(|&h| hj(h)).collect::<Vec<_>>(),"ok":ok,"pos":pos}),
                Some(&*world),
            );
        }
        "edelete" => {
            if let Some(e) = handle(cx, &op["h"]) {
                let r = world.entities().delete(e);
                emit(cx, json!({"op":"EDelete","h":hj(e),"ok":r.is_ok()}), Some(&*world));
            }
        }
        "delete_all" => {
            world.delete_all();
            emit(cx, json!({"op":"DeleteAll"}), Some(&*world));
        }
        "maintain" => {
            emit(cx, json!({"op":"MaintainBegin"}), None);
            world.maintain();
            emit(cx, json!({"op":"MaintainEnd"}), Some(&*world));
        }
        "sop" => {
            let s = op["s"].as_u64().unwrap_or(0) as usize;
            if s >= cx.stores.len() {
                return;
            }
            if let Some(e) = handle(cx, &op["h"]) {
                let path = op["path"].as_str().unwrap_or("get");
                let c = new_c(cx, s);
                let wval = if op["w"].as_bool().unwrap_or(true) {
                    new_val(cx, s)
                } else {
                    -1
                };
                let mut r = cx.stores[s].sop(world, path, e, c, wval);
                if r["cls"] == "skip" {
                    return;
                }
                let m = r.as_object_mut().unwrap();
                m.insert("op".into(), json!("SOp"));
                m.insert("path".into(), json!(path));
                m.insert("s".into(), json!(s + 1));
                m.insert("h".into(), hj(e));
                m.insert("c".into(), json!([c.0, c.1]));
                m.insert("val".into(), json!(wval));
                emit(cx, r, Some(&*world));
            }
        }
        "linsert" => {
            let s = op["s"].as_u64().unwrap_or(0) as usize;
            if s >= cx.stores.len() {
                return;
            }
            if let Some(e) = handle(cx, &op["h"]) {
                let c = new_c(cx, s);
                {
                    let lazy = world.read_resource::<LazyUpdate>();
                    cx.stores[s].lazy_insert(&lazy, e, c);
                }
                emit(
                    cx,
                    json!({"op":"LazyQueue","k":"ins","s":s+1,"h":hj(e),"c":[c.0,c.1]}),
                    Some(&*world),
                );
            }
        }
        "linsert_all" => {
            let s = op["s"].as_u64().unwrap_or(0) as usize;
            if s >= cx.stores.len() {
                return;
            }
            let items: Vec<(Entity, (u32, u32))> = op["hs"]
                .as_array()
                .map(|a| {
                    a.iter()
                        .filter_map(|k| handle(cx, k))
                        .map(|e| (e, new_c(cx, s)))
                        .collect()
                })
                .unwrap_or_default();
            let ij: Vec<Value> = items
                .iter()
                .map(|(e, c)| json!([hj(*e), [c.0, c.1]]))
                .collect();
            {
                let lazy = world.read_resource::<LazyUpdate>();
                cx.stores[s].lazy_insert_all(&lazy, items);
            }
            emit(
                cx,
                json!({"op":"LazyQueue","k":"insall","s":s+1,"items":ij}),
                Some(&*world),
            );
        }
        "lremove" => {
            let s = op["s"].as_u64().unwrap_or(0) as usize;
            if s >= cx.stores.len() {
                return;
            }
            if let Some(e) = handle(cx, &op["h"]) {
                {
                    let lazy = world.read_resource::<LazyUpdate>();
                    cx.stores[s].lazy_remove(&lazy, e);
                }
                emit(
                    cx,
                    json!({"op":"LazyQueue","k":"rem","s":s+1,"h":hj(e)}),
                    Some(&*world),
                );
            }
        }
        "lexec" | "lexec_mut" => {
            let id = {
                let mut g = lock(cx);
                g.next_lazy += 1;
                g.next_lazy
            };
            let body: Vec<Value> = op["body"].as_array().cloned().unwrap_or_default();
            let cx2 = cx.clone();
            let f = move |w: &mut World| {
                emit(&cx2, json!({"op":"LazyRun","id":id}), Some(&*w));
                for b in &body {
                    exec_op(&cx2, w, b);
                }
            };
            {
                let lazy = world.read_resource::<LazyUpdate>();
                if o == "lexec" {
                    lazy.exec(f);
                } else {
                    lazy.exec_mut(f);
                }
            }
            emit(cx, json!({"op":"LazyQueue","k":"exec","id":id}), Some(&*world));
        }
        "wop" => {
            let s = op["s"].as_u64().unwrap_or(0) as usize;
            if s >= cx.stores.len() {
                return;
            }
            let base = {
                let mut g = lock(cx);
                let b = g.next_val + 1;
                g.next_val += 64;
                b as i64
            };
            if let Some(mut r) = cx.stores[s].wop(world, op, base) {
                let m = r.as_object_mut().unwrap();
                m.insert("op".into(), json!("WOp"));
                m.insert("k".into(), op["k"].clone());
                m.insert("v".into(), json!(op["v"].as_str().unwrap_or("join")));
                m.insert("s".into(), json!(s + 1));
                emit(cx, r, Some(&*world));
            }
        }
        "fault" => {
            // C19: the k-th destructor call made by library code during the inner
            // operation panics; the unwind is caught here
            let k = op["k"].as_u64().unwrap_or(1) as u32;
            let inner = op["op"].clone();
            let before = ledger::panicked().len();
            ledger::arm_panic(k);
            let r = catch(|| exec_op(cx, world, &inner));
            ledger::disarm();
            let fired = ledger::panicked().len() > before;
            match r {
                Ok(()) => {}
                Err(msg) => {
                    if fired {
                        let mut fev = json!({"op":"Fault","in":opname(&inner),"k":k,"msg":msg,"ledger":ledger::dump()});
                        let orphan = {
                            let mut g = lock(cx);
                            let o = g.pending_builder.take();
                            if let Some(e) = o {
                                g.orphans.push(e);
                            }
                            o
                        };
                        if let Some(e) = orphan {
                            // the builder was dropped by the unwinding: its entity exists and awaits deletion
                            fev["orphan"] = hj(e);
                        }
                        emit(cx, fev, Some(&*world));
                    } else {
                        // not ours: an ordinary panic of the code under test
                        std::panic::resume_unwind(Box::new(msg));
                    }
                }
            }
        }
        "oob_insert" => {
            let s = op["s"].as_u64().unwrap_or(0) as usize;
            if s >= cx.stores.len() {
                return;
            }
            let c = new_c(cx, s);
            let panicked = cx.stores[s].oob_insert(world, c);
            emit(cx, json!({"op":"OobInsert","s":s+1,"c":[c.0,c.1],"id":(1u32 << 24) + 5,"panicked":panicked}), Some(&*world));
        }
        "prealloc" => {
            // n entities created at once; only those at the `keep` positions survive
            let n = op["n"].as_u64().unwrap_or(1) as usize;
            let keep: Vec<usize> = op["keep"]
                .as_array()
                .map(|a| a.iter().filter_map(|k| k.as_u64()).map(|k| k as usize).collect())
                .unwrap_or_default();
            let es: Vec<Entity> = world.create_iter().take(n).collect();
            let mut kept = vec![];
            let mut gone = vec![];
            for (i, e) in es.iter().enumerate() {
                if keep.contains(&i) {
                    kept.push(*e);
                } else {
                    gone.push(*e);
                }
            }
            let r = world.delete_entities(&gone);
            {
                let mut g = lock(cx);
                g.handles.extend(kept.iter().copied());
            }
            emit(
                cx,
                json!({"op":"Prealloc","n":n,"ok":r.is_ok(),"hs":kept.iter().map(|&h| hj(h)).collect::<Vec<_>>()}),
                Some(&*world),
            );
        }
        _ => {}
    }
}

fn opname(op: &Value) -> &'static str {
    match op["o"].as_str().unwrap_or("") {
        "create" | "create_unchecked" | "create_drop" | "create_iter" | "ecreate" | "ecreate_iter"
        | "ebuild" | "ebuild_drop" | "lcreate" => "Created",
        "delete" => "Delete",
        "delete_batch" => "DeleteBatch",
        "edelete" => "EDelete",
        "delete_all" => "DeleteAll",
        "maintain" => "MaintainBegin",
        "sop" => "SOp",
        "wop" => "WOp",
        "linsert" | "linsert_all" | "lremove" | "lexec" | "lexec_mut" => "LazyQueue",
        _ => "Nop",
    }
}

/// Run one script; returns the event lines.
pub fn run_script(script: &Value) -> Vec<String> {
    let cfg = &script["cfg"];
    let kinds: Vec<String> = cfg["kinds"]
        .as_array()
        .map(|a| a.iter().map(|k| k.as_str().unwrap_or("vec").to_string()).collect())
        .unwrap_or_default();
    let regs: Vec<String> = cfg["reg"]
        .as_array()
        .map(|a| a.iter().map(|k| k.as_str().unwrap_or("register").to_string()).collect())
        .unwrap_or_default();
    let mut stores: Vec<Box<dyn StoreOps>> = vec![];
    let mut seen: std::collections::HashMap<String, u8> = Default::default();
    for k in &kinds {
        let n = seen.entry(k.clone()).or_insert(0);
        stores.push(ops_for(k, *n));
        *n += 1;
    }
    let sweep_mode = match script["sweep"].as_str().unwrap_or("full") {
        "light" => SweepMode::Light,
        "off" => SweepMode::Off,
        _ => SweepMode::Full,
    };
    let zst: Vec<bool> = stores.iter().map(|s| s.zst()).collect();
    let trk: Vec<&str> = stores.iter().map(|s| s.tracked()).collect();
    crate::caps::reset_readers();
    let cx: Cx = Arc::new(Ctx {
        st: Mutex::new(HState {
            handles: vec![],
            next_cid: 0,
            next_val: 1000,
            next_lazy: 0,
            opno: 0,
            log: vec![],
            sweep: sweep_mode,
            failed: false,
            pending_builder: None,
            orphans: vec![],
        }),
        stores,
    });
    ledger::reset();
    let tid = script["tid"].clone();
    emit(
        &cx,
        json!({"op":"Reset","cfg":{"S":kinds.len(),"zst":zst,"trk":trk,"tid":tid,"kinds":kinds,"reg":regs}}),
        None,
    );
    let mut world = World::new();
    let r = catch(|| {
        for (i, s) in cx.stores.iter().enumerate() {
            s.register(&mut world, regs.get(i).map(|x| x.as_str()).unwrap_or("register"));
        }
    });
    if let Err(msg) = r {
        emit(&cx, json!({"op":"Panic","in":"Register","msg":msg}), None);
    }
    let ops = script["ops"].as_array().cloned().unwrap_or_default();
    let mut aborted = false;
    for op in &ops {
        let r = catch(|| exec_op(&cx, &mut world, op));
        if let Err(msg) = r {
            emit(&cx, json!({"op":"Panic","in":opname(op),"msg":msg}), None);
            aborted = true;
            break;
        }
    }
    // teardown is part of every history (optionally with a destructor that panics)
    let tk = script["fault_teardown"].as_u64().unwrap_or(0) as u32;
    let before = ledger::panicked().len();
    if tk > 0 {
        ledger::arm_panic(tk);
    }
    let r = catch(move || drop(world));
    ledger::disarm();
    ledger::settle_plain();
    let tfault = ledger::panicked().len() > before;
    if let (Err(msg), false) = (&r, tfault) {
        emit(&cx, json!({"op":"Panic","in":"DropWorld","msg":msg}), None);
    } else if !aborted {
        emit(&cx, json!({"op":"DropWorld","ledger":ledger::dump(),"tfault":tfault}), None);
    }
    let mut g = lock(&cx);
    std::mem::take(&mut g.log)
}

pub fn run_file(input: &str, out: &mut Out) {
    let text = std::fs::read_to_string(input).expect("read scripts");
    for line in text.lines() {
        if line.trim().is_empty() {
            continue;
        }
        let script: Value = serde_json::from_str(line).expect("script json");
        out.begin_script(&script["tid"]);
        for l in run_script(&script) {
            out.line(&l);
        }
    }
}
