//! Join domain (C06, C07): builds the members of a join (storages of several
//! kinds, entities, bit sets and their combinations, negated storages,
//! optional members, restricted storages, change sets, drains) with the
//! membership a script prescribes, runs one join variant (sequential, lending
//! next/for_each, lending get-by-entity, parallel on a pool, or - through the
//! cfg(specs_verif) hook - a scripted tree of producer splits) and records
//! the delivered items and the storage contents afterwards.  Join_L0.tla
//! decides.

use crate::comps::*;
use crate::util::{catch, Out};
use serde_json::{json, Value};
use specs::hibitset::{BitSetAnd, BitSetLike, BitSetNot, BitSetOr, BitSetXor};
use specs::prelude::*;
use specs::storage::UnprotectedStorage;
use std::collections::BTreeMap;
use std::sync::Mutex;

type V0 = CVec<0>;
type D0 = CDense<0>;
type H0 = CHash<0>;
type B0 = CBTree<0>;
type F0 = CDefVec<0>;
type V1 = CVec<1>;
type D1 = CDense<1>;
type H1 = CHash<1>;
type B1 = CBTree<1>;
type F1 = CDefVec<1>;
type V2 = CVec<2>;
type D2 = CDense<2>;
type H2 = CHash<2>;
type B2 = CBTree<2>;
type F2 = CDefVec<2>;
type N0 = CNull<0>;
type FV0 = CFVec<0>;
type FD0 = CFDense<0>;

#[derive(Debug, Default)]
pub struct Amt {
    cid: u32,
    val: u32,
}
impl std::ops::AddAssign for Amt {
    fn add_assign(&mut self, o: Amt) {
        self.val += o.val;
    }
}
impl Amt {
    fn js(&self) -> Value {
        json!([self.cid, self.val])
    }
}

pub struct Setup {
    pub world: World,
    pub bitsets: Vec<BitSet>,
    pub bitsets2: Vec<BitSet>,
    pub csets: Vec<Option<ChangeSet<Amt>>>,
    pub next_cid: u32,
}

fn ent_for(world: &World, id: u32) -> Entity {
    world.entities().entity(id)
}

fn fill<T: TokComp>(s: &mut Setup, ids: &[u32], churn: &[u32]) -> Vec<Value>
where
    T::Storage: Default,
{
    let mut out: Vec<(u32, u32, u32)> = vec![];
    let mut st = s.world.write_storage::<T>();
    for &id in ids {
        s.next_cid += 1;
        let (cid, val) = if T::ZST { (0, 0) } else { (s.next_cid, 1000 + s.next_cid) };
        let e = s.world.entities().entity(id);
        if st.insert(e, T::new(cid, val)).is_ok() {
            out.push((id, cid, val));
        }
    }
    // remove and re-insert some (changes e.g. the dense storage's internal order)
    for &id in churn {
        let e = s.world.entities().entity(id);
        if let Some(old) = st.remove(e) {
            crate::ledger::give_back(old);
            s.next_cid += 1;
            let (cid, val) = if T::ZST { (0, 0) } else { (s.next_cid, 1000 + s.next_cid) };
            if st.insert(e, T::new(cid, val)).is_ok() {
                for o in out.iter_mut() {
                    if o.0 == id {
                        *o = (id, cid, val);
                    }
                }
            }
        }
    }
    out.into_iter().map(|(id, cid, val)| json!([id, [cid, val]])).collect()
}

fn contents<T: TokComp>(world: &World, ids: &[u32]) -> Value {
    let st = world.read_storage::<T>();
    let v: Vec<Value> = ids
        .iter()
        .filter_map(|&id| st.get(ent_for(world, id)).map(|c| json!([id, c.js()])))
        .collect();
    json!(v)
}

fn bs_of(ids: &[u32]) -> BitSet {
    let mut b = BitSet::new();
    for &i in ids {
        b.add(i);
    }
    b
}

fn ids_of(m: &Value, key: &str) -> Vec<u32> {
    m[key]
        .as_array()
        .map(|a| a.iter().filter_map(|x| x.as_u64()).map(|x| x as u32).collect())
        .unwrap_or_default()
}

pub struct Run<'a> {
    /// unconstrained joins: number of items delivered
    pub count: std::cell::Cell<Option<u64>>,
    /// parallel joins: what `par_join().count()` returned (asked before the items are driven)
    pub pcount: std::cell::Cell<Option<u64>>,
    /// unconstrained joins with an index-valued member: the indices whose items are recorded
    pub watch: Vec<u32>,
    pub variant: &'a str,
    /// which consumer drives a sequential join
    pub cons: usize,
    pub threads: usize,
    pub tree: Vec<bool>,
    pub probe: Vec<Entity>,
}

/// the four ways of driving a join; `$tuple` is re-evaluated inside each arm,
/// `$body` turns one item into the list of member values (and performs the
/// writes through mutable members)
macro_rules! drive {
    ($run:expr, $world:expr, par = $par:tt, $tuple:expr, |$pat:pat_param| $body:expr) => {{
        let run: &Run = $run;
        let mut gets: Vec<Value> = vec![];
        let items: Vec<Value> = match run.variant {
            // (the iterator's provided methods are consumers an implementation may override: they take turns)
            "join" => match run.cons % 5 {
                0 => ($tuple).join().map(|$pat| json!($body)).collect(),
                1 => {
                    let mut v = vec![];
                    let mut it = ($tuple).join();
                    while let Some($pat) = it.next() {
                        v.push(json!($body));
                    }
                    v
                }
                2 => ($tuple).join().fold(vec![], |mut v, $pat| {
                    v.push(json!($body));
                    v
                }),
                3 => {
                    let mut v = vec![];
                    let mut it = ($tuple).join();
                    while let Some($pat) = it.nth(0) {
                        v.push(json!($body));
                    }
                    v
                }
                _ => {
                    let mut v = vec![];
                    ($tuple).join().for_each(|$pat| v.push(json!($body)));
                    v
                }
            },
            "lend" => {
                let mut v = vec![];
                let mut it = ($tuple).lend_join();
                while let Some($pat) = it.next() {
                    v.push(json!($body));
                }
                v
            }
            "lend_for_each" => {
                let mut v = vec![];
                ($tuple).lend_join().for_each(|$pat| v.push(json!($body)));
                v
            }
            "lend_get" => {
                drive!(@get run, $world, gets, $tuple, |$pat| $body);
                vec![]
            }
            "par" => drive!(@par $par, run, $tuple, |$pat| $body),
            "split" => drive!(@split $par, run, $tuple, |$pat| $body),
            _ => vec![],
        };
        (items, gets)
    }};
    (@get $run:ident, $world:expr, $gets:ident, $tuple:expr, |$pat:pat_param| $body:expr) => {{
        let ents = $world.entities();
        let mut it = ($tuple).lend_join();
        for &e in $run.probe.iter() {
            let r = match it.get(e, &ents) {
                Some($pat) => json!($body),
                None => json!([]),
            };
            // get_unchecked: by index only, aliveness not consulted
            let u = match it.get_unchecked(e.id()) {
                Some($pat) => json!($body),
                None => json!([]),
            };
            $gets.push(json!([[e.id(), e.gen().id()], ents.is_alive(e), r, u]));
        }
    }};
    (@par yes, $run:ident, $tuple:expr, |$pat:pat_param| $body:expr) => {{
        let pool = rayon::ThreadPoolBuilder::new().num_threads($run.threads.max(1)).build().unwrap();
        let out = Mutex::new(Vec::<Value>::new());
        // rayon's consumers are provided methods an implementation may override: the plain count first
        $run.pcount.set(Some(pool.install(|| ($tuple).par_join().count()) as u64));
        if $run.threads % 2 == 1 {
            // map + collect instead of for_each
            let v: Vec<Value> = pool.install(|| ($tuple).par_join().map(|$pat| json!($body)).collect());
            v
        } else {
            // (the body of every other run does parallel work of its own - a nested parallel join on the same
            // pool - as systems built from library calls do)
            let nest: specs::hibitset::BitSet = [1u32, 2, 3, 70, 4100].iter().copied().collect();
            let nested = $run.threads % 4 == 0;
            let nest_bad = std::sync::atomic::AtomicUsize::new(0);
            pool.install(|| {
                ($tuple).par_join().for_each(|$pat| {
                    // a little work so that other workers get a chance to steal
                    let mut x = 0u64;
                    for k in 0..200 {
                        x = x.wrapping_mul(31).wrapping_add(k);
                    }
                    std::hint::black_box(x);
                    if nested && (&nest).par_join().count() != 5 {
                        nest_bad.fetch_add(1, std::sync::atomic::Ordering::Relaxed);
                    }
                    let v = json!($body);
                    out.lock().unwrap().push(v);
                })
            });
            if nest_bad.into_inner() > 0 {
                panic!("a parallel join nested in the body of a parallel join delivered a wrong number of items");
            }
            out.into_inner().unwrap()
        }
    }};
    (@par no, $run:ident, $tuple:expr, |$pat:pat_param| $body:expr) => {{
        vec![json!("unsupported")]
    }};
    (@split yes, $run:ident, $tuple:expr, |$pat:pat_param| $body:expr) => {{
        let mut v = vec![];
        let mut dec = $run.tree.iter().copied();
        specs::join::verif_split_fold($tuple, &mut dec, |leaf: usize, $pat| {
            let mut item = json!($body);
            item.as_array_mut().unwrap().push(json!(["leaf", leaf]));
            v.push(item);
        });
        v
    }};
    (@split no, $run:ident, $tuple:expr, |$pat:pat_param| $body:expr) => {{
        vec![json!("unsupported")]
    }};
}

/// Unconstrained joins deliver one item per index of the whole index space
/// (2^24): all of them are counted, only the `$keep` ones are recorded.
macro_rules! drive_u {
    ($run:expr, $world:expr, $count:expr, $tuple:expr, |$pat:pat_param| $keep:expr, $body:expr) => {{
        let run: &Run = $run;
        let mut n: u64 = 0;
        let mut gets: Vec<Value> = vec![];
        let items: Vec<Value> = match run.variant {
            "lend_get" => {
                // lookups by entity / by index through the lending join (no walk over the index space)
                drive!(@get run, $world, gets, $tuple, |$pat| $body);
                vec![]
            }
            "join" => {
                let mut v = vec![];
                for $pat in ($tuple).join() {
                    n += 1;
                    if $keep {
                        v.push(json!($body));
                    }
                }
                v
            }
            "lend" => {
                let mut v = vec![];
                let mut it = ($tuple).lend_join();
                while let Some($pat) = it.next() {
                    n += 1;
                    if $keep {
                        v.push(json!($body));
                    }
                }
                v
            }
            "lend_for_each" => {
                let mut v = vec![];
                ($tuple).lend_join().for_each(|$pat| {
                    n += 1;
                    if $keep {
                        v.push(json!($body));
                    }
                });
                v
            }
            "par" => {
                let pool = rayon::ThreadPoolBuilder::new().num_threads(run.threads.max(1)).build().unwrap();
                let out = Mutex::new(Vec::<Value>::new());
                let cnt = std::sync::atomic::AtomicU64::new(0);
                pool.install(|| {
                    ($tuple).par_join().for_each(|$pat| {
                        cnt.fetch_add(1, std::sync::atomic::Ordering::Relaxed);
                        if $keep {
                            let v = json!($body);
                            out.lock().unwrap().push(v);
                        }
                    })
                });
                n = cnt.into_inner();
                out.into_inner().unwrap()
            }
            "split" => {
                let mut v = vec![];
                let mut dec = run.tree.iter().copied();
                specs::join::verif_split_fold($tuple, &mut dec, |leaf: usize, $pat| {
                    n += 1;
                    if $keep {
                        let mut item = json!($body);
                        item.as_array_mut().unwrap().push(json!(["leaf", leaf]));
                        v.push(item);
                    }
                });
                v
            }
            _ => vec![json!("unsupported")],
        };
        *$count = if run.variant == "lend_get" { None } else { Some(n) };
        (items, gets)
    }};
}

fn w<T: TokComp>(c: &mut T) -> Value {
    let b = c.js();
    let v = c.val();
    c.set_val(v + 1);
    b
}

fn wo<T: TokComp>(c: Option<&mut T>) -> Value {
    match c {
        Some(c) => w(c),
        None => json!([]),
    }
}

fn ro<T: TokComp>(c: Option<&T>) -> Value {
    match c {
        Some(c) => c.js(),
        None => json!([]),
    }
}

fn ej(e: Entity) -> Value {
    json!([e.id(), e.gen().id()])
}

const UNIT: i64 = -3;

pub const SHAPES: &[(&str, &[&str])] = &[
    ("r", &["r"]),
    ("w", &["w"]),
    ("r_r", &["r", "r"]),
    ("w_r", &["w", "r"]),
    ("e_r", &["e", "r"]),
    ("e_w_r", &["e", "w", "r"]),
    ("r_n", &["r", "n"]),
    ("e_n", &["e", "n"]),
    ("r_m", &["r", "m"]),
    ("w_mw", &["w", "mw"]),
    ("e_m_m", &["e", "m", "m"]),
    ("e_mm_nest", &["e", "m", "m"]),
    ("b_r", &["b", "r"]),
    ("bv", &["bv"]),
    ("band_r", &["band", "r"]),
    ("bor", &["bor"]),
    ("bnot_r", &["bnot", "r"]),
    ("bxor_m", &["bxor", "m"]),
    ("rs_r", &["rs", "r"]),
    ("rsm_r", &["rsm", "r"]),
    ("e_rsm", &["e", "rsm"]),
    ("cs_r", &["cs", "r"]),
    ("csm_w", &["csm", "w"]),
    ("csv_r", &["csv", "r"]),
    ("dr_r", &["dr", "r"]),
    ("dr", &["dr"]),
    ("e_dr", &["e", "dr"]),
    ("r_fr", &["r", "r"]),
    ("ab_r", &["b", "r"]),
    ("abv", &["bv"]),
    ("dyn_r", &["b", "r"]),
    ("rband_r", &["band", "r"]),
    ("rbor", &["bor"]),
    ("rbnot_r", &["bnot", "r"]),
    // every remaining tuple arity (all members read)
    ("ar6", &["r", "r", "r", "r", "r", "r"]),
    ("ar7", &["r", "r", "r", "r", "r", "r", "r"]),
    ("ar9", &["r", "r", "r", "r", "r", "r", "r", "r", "r"]),
    ("ar10", &["r", "r", "r", "r", "r", "r", "r", "r", "r", "r"]),
    ("ar11", &["r", "r", "r", "r", "r", "r", "r", "r", "r", "r", "r"]),
    ("ar12", &["r", "r", "r", "r", "r", "r", "r", "r", "r", "r", "r", "r"]),
    ("ar13", &["r", "r", "r", "r", "r", "r", "r", "r", "r", "r", "r", "r", "r"]),
    ("ar14", &["r", "r", "r", "r", "r", "r", "r", "r", "r", "r", "r", "r", "r", "r"]),
    ("ar15", &["r", "r", "r", "r", "r", "r", "r", "r", "r", "r", "r", "r", "r", "r", "r"]),
    // joins over resources through their fetch wrappers (Fetch / Read / FetchMut / Write)
    ("res_fb_r", &["b", "r"]),
    ("res_rb_r", &["b", "r"]),
    ("res_reb_r", &["b", "r"]),
    ("res_fmcs_w", &["csm", "w"]),
    ("res_wcs_w", &["csm", "w"]),
    ("res_wecs_w", &["csm", "w"]),
    // unconstrained joins: every member is optional or negated, the join walks the whole index space
    ("u_n", &["n"]),
    ("u_m", &["m"]),
    ("u_n_m", &["n", "m"]),
    ("u_mw", &["mw"]),
    ("u_bnot_m", &["bnot", "m"]),
    ("a3", &["w", "r", "r"]),
    ("a4", &["r", "w", "r", "m"]),
    ("a5", &["e", "r", "w", "n", "r"]),
    ("a8", &["w", "r", "r", "r", "r", "r", "m", "r"]),
    ("a16", &["w", "r", "r", "r", "r", "r", "r", "r", "r", "r", "r", "r", "r", "r", "r", "r"]),
    ("a16e", &["e", "w", "r", "r", "r", "r", "r", "r", "r", "r", "r", "r", "r", "r", "r", "m"]),
];

/// component type of the i-th storage-like member of each shape (fixed per shape)
macro_rules! with_types {
    ($f:ident, $s:expr, $($t:ty),*) => {{ let mut k = 0usize; $( $f::<$t>($s, k); k += 1; )* let _ = k; }};
}

pub fn run_script(script: &Value) -> Value {
    let shape = script["shape"].as_str().unwrap_or("r").to_string();
    let kinds: Vec<&str> = SHAPES
        .iter()
        .find(|(n, _)| *n == shape)
        .map(|(_, k)| k.to_vec())
        .unwrap_or_default();
    let members = script["members"].as_array().cloned().unwrap_or_default();
    let n_ent = script["n_ent"].as_u64().unwrap_or(0) as usize;
    let dead: Vec<u32> = ids_of(script, "dead");
    let mut world = World::new();
    macro_rules! reg { ($($t:ty),*) => { $( world.register::<$t>(); )* } }
    reg!(V0, D0, H0, B0, F0, V1, D1, H1, B1, F1, V2, D2, H2, B2, F2, N0, FV0, FD0);
    let real: Vec<Entity> = world.create_iter().take(n_ent).collect();
    let dead_es: Vec<Entity> = real.iter().copied().filter(|e| dead.contains(&e.id())).collect();
    // some of the dying entities had a deferred deletion requested first; some entities
    // stay alive with a deferred deletion pending (no maintain happens before the join)
    let doomed: Vec<u32> = ids_of(script, "doomed");
    for e in real.iter() {
        if doomed.contains(&e.id()) {
            let _ = world.entities().delete(*e);
        }
    }
    let _ = world.delete_entities(&dead_es);
    // entities created through shared access and not yet merged by a maintain
    let n_raised = script["n_raised"].as_u64().unwrap_or(0) as usize;
    let raised: Vec<Entity> = (0..n_raised).map(|_| world.entities().create()).collect();
    // `maintain`: the world is maintained before the join (unmerged entities are merged, deferred deletions
    // applied - also those of entities created in the same frame); otherwise both stay pending
    let maintain_first = script["maintain"].as_bool().unwrap_or(false);
    let mut raised_gone: Vec<Entity> = vec![];
    if maintain_first {
        for (k, e) in raised.iter().enumerate() {
            if k % 2 == 0 {
                let _ = world.entities().delete(*e);
                raised_gone.push(*e);
            }
        }
        world.maintain();
    }
    // the live entities as the API reported them (not taken from a join)
    // (after a maintain the entities with a deferred deletion are gone)
    let mut live: Vec<Entity> = real.iter().copied()
        .filter(|e| !dead.contains(&e.id()) && !(maintain_first && doomed.contains(&e.id())))
        .collect();
    live.extend(raised.iter().copied().filter(|e| !raised_gone.contains(e)));
    live.sort_by_key(|e| e.id());
    let mut s = Setup { world, bitsets: vec![], bitsets2: vec![], csets: vec![], next_cid: 0 };

    // member storage types per position (same for every shape: position decides the kind)
    let mut mem_js: Vec<Value> = vec![];
    for (k, m) in members.iter().enumerate() {
        let ids = ids_of(m, "ids");
        let ids2 = ids_of(m, "ids2");
        let kind = kinds.get(k).copied().unwrap_or("r");
        s.bitsets.push(bs_of(&ids));
        s.bitsets2.push(bs_of(&ids2));
        let mut vals = vec![];
        let mut cs = None;
        match kind {
            "r" | "w" | "n" | "m" | "mw" | "rs" | "rsm" | "dr" => {
                vals = fill_pos(&mut s, &shape, k, &ids, &ids_of(m, "churn"));
            }
            "cs" | "csm" | "csv" => {
                // 1-3 adds per entity, interleaved (the entity is revisited after others have got their
                // entries; runs of adds for one entity occur too): the value recorded is the one that
                // arrived first, carrying the sum
                let mut first: Vec<(u32, u32, u32)> = vec![];        // (id, cid of the first add, sum)
                let mut pairs: Vec<(Entity, Amt)> = vec![];
                let rounds = [1u32, 2, 3];
                for r in 0..3u32 {
                    for (pos, &id) in ids.iter().enumerate() {
                        let n_adds = rounds[(id as usize + pos) % 3];
                        let reps = if r < n_adds { if (id + r) % 4 == 0 { 2 } else { 1 } } else { 0 };
                        for _ in 0..reps {
                            s.next_cid += 1;
                            let a = Amt { cid: s.next_cid, val: 1000 + s.next_cid };
                            match first.iter_mut().find(|f| f.0 == id) {
                                Some(f) => f.2 += a.val,
                                None => first.push((id, a.cid, a.val)),
                            }
                            pairs.push((ent_for(&s.world, id), a));
                        }
                    }
                }
                // the set is filled by add, by one extend on the empty set, by collect, or by collect + extend
                let c: ChangeSet<Amt> = match (s.next_cid + k as u32) % 4 {
                    0 => {
                        let mut c = ChangeSet::new();
                        for (e, a) in pairs {
                            c.add(e, a);
                        }
                        c
                    }
                    1 => {
                        let mut c = ChangeSet::new();
                        c.extend(pairs);
                        c
                    }
                    2 => pairs.into_iter().collect(),
                    _ => {
                        let cut = pairs.len() / 2;
                        let rest = pairs.split_off(cut);
                        let mut c: ChangeSet<Amt> = pairs.into_iter().collect();
                        c.extend(rest);
                        c
                    }
                };
                for &id in &ids {
                    if let Some(f) = first.iter().find(|f| f.0 == id) {
                        vals.push(json!([id, [f.1, f.2]]));
                    }
                }
                cs = Some(c);
            }
            _ => {}
        }
        s.csets.push(cs);
        mem_js.push(json!({"k": kind, "ids": ids, "ids2": ids2, "vals": vals}));
    }
    let threads = script["threads"].as_u64().unwrap_or(4) as usize;
    let tree: Vec<bool> = script["tree"]
        .as_array()
        .map(|a| a.iter().map(|x| x.as_bool().unwrap_or(false) || x.as_u64() == Some(1)).collect())
        .unwrap_or_default();
    let mut probe: Vec<Entity> = real.clone();
    probe.extend(raised.iter().copied());
    for m in &members {
        for id in ids_of(m, "ids") {
            if id as usize >= n_ent {
                probe.push(ent_for(&s.world, id));
            }
        }
    }
    probe.sort();
    probe.dedup();
    let variant = script["variant"].as_str().unwrap_or("join").to_string();
    let mut watch: Vec<u32> = members.iter().flat_map(|m| ids_of(m, "ids")).collect();
    watch.extend([0u32, 1, 63, 64, 4095, 4096, 262143, 262144, (1 << 24) - 1]);
    watch.sort();
    watch.dedup();
    let run = Run { count: std::cell::Cell::new(None), pcount: std::cell::Cell::new(None), watch, variant: &variant,
                    cons: script["tid"].as_u64().unwrap_or(0) as usize, threads, tree, probe };
    let ents_js: Vec<Value> = live.iter().map(|&e| ej(e)).collect();
    let r = catch(|| exec_shape(&mut s, &shape, &run));
    let (ucount, uwatch) = (run.count.get(), run.watch.clone());
    let pcount = run.pcount.get();
    if let Some(c) = s.world.remove::<ChangeSet<Amt>>() {
        s.csets[0] = Some(c);
    }
    let (items, gets) = match r {
        Ok(x) => x,
        Err(msg) => {
            return json!({"op":"Join","tid":script["tid"],"shape":shape,"variant":variant,"mem":mem_js,
                          "ents":ents_js,"items":[],"gets":[],"after":[],"panic":msg});
        }
    };
    // contents afterwards
    let mut after = vec![];
    for (k, m) in members.iter().enumerate() {
        let kind = kinds.get(k).copied().unwrap_or("r");
        let ids = ids_of(m, "ids");
        after.push(match kind {
            "r" | "w" | "n" | "m" | "mw" | "rs" | "rsm" | "dr" => contents_pos(&s, &shape, k, &ids),
            "cs" | "csm" => {
                let e = s.world.entities();
                match &s.csets[k] {
                    Some(c) => {
                        let b = bs_of(&ids);
                        let v: Vec<Value> = (&b, c).join().map(|(i, a)| json!([i, a.js()])).collect();
                        let _ = &e;
                        json!(v)
                    }
                    None => json!([]),
                }
            }
            _ => json!([]),
        });
    }
    let mut sorted = items;
    let variant = if sorted.len() == 1 && sorted[0] == json!("unsupported") {
        sorted.clear();
        "skip".to_string()
    } else {
        variant
    };
    if variant == "par" {
        sorted.sort_by_key(|v| v.to_string());
    }
    let mut ev = json!({"op":"Join","tid":script["tid"],"shape":shape,"variant":variant,"threads":threads,
           "mem":mem_js,"ents":ents_js,"items":sorted,"gets":gets,"after":after,"panic":""});
    if let Some(n) = pcount {
        ev.as_object_mut().unwrap().insert("pcount".into(), json!(n));
    }
    if let Some(n) = ucount {
        let m = ev.as_object_mut().unwrap();
        m.insert("count".into(), json!(n));
        m.insert("top".into(), json!(1u64 << 24));
        m.insert("watch".into(), json!(uwatch));
    }
    ev
}

/// storage type by (shape, member position)
macro_rules! by_pos {
    ($shape:expr, $k:expr, $f:ident ( $($a:expr),* )) => {
        match ($shape, $k) {
            ("r_fr", 1) => $f::<FV0>($($a),*),
            ("r_fr", 0) => $f::<FD0>($($a),*),
            (_, 0) => $f::<V0>($($a),*),
            (_, 1) => $f::<D0>($($a),*),
            (_, 2) => $f::<H0>($($a),*),
            (_, 3) => $f::<B0>($($a),*),
            (_, 4) => $f::<F0>($($a),*),
            (_, 5) => $f::<V1>($($a),*),
            (_, 6) => $f::<D1>($($a),*),
            (_, 7) => $f::<H1>($($a),*),
            (_, 8) => $f::<B1>($($a),*),
            (_, 9) => $f::<F1>($($a),*),
            (_, 10) => $f::<V2>($($a),*),
            (_, 11) => $f::<D2>($($a),*),
            (_, 12) => $f::<H2>($($a),*),
            (_, 13) => $f::<B2>($($a),*),
            (_, 14) => $f::<F2>($($a),*),
            (_, 15) => $f::<N0>($($a),*),
            (_, 16) => $f::<FV0>($($a),*),
            _ => $f::<FD0>($($a),*),
        }
    };
}

fn fill_pos(s: &mut Setup, shape: &str, k: usize, ids: &[u32], churn: &[u32]) -> Vec<Value> {
    by_pos!(shape, k, fill(s, ids, churn))
}

fn contents_w<T: TokComp>(s: &Setup, ids: &[u32]) -> Value {
    contents::<T>(&s.world, ids)
}

fn contents_pos(s: &Setup, shape: &str, k: usize, ids: &[u32]) -> Value {
    by_pos!(shape, k, contents_w(s, ids))
}

fn exec_shape(s: &mut Setup, shape: &str, run: &Run) -> (Vec<Value>, Vec<Value>) {
    if shape.starts_with("res_") {
        // the bit set / change set becomes a resource of the world
        #[allow(deprecated)]
        s.world.add_resource(s.bitsets[0].clone());
        if let Some(c) = s.csets[0].take() {
            s.world.insert(c);
        }
    }
    let world = &s.world;
    let ents = world.entities();
    match shape {
        "r" => {
            let a = world.read_storage::<V0>();
            drive!(run, world, par = yes, (&a,), |(x,)| [x.js()])
        }
        "w" => {
            let mut a = world.write_storage::<V0>();
            drive!(run, world, par = yes, (&mut a,), |(x,)| [w(x)])
        }
        "r_r" => {
            let a = world.read_storage::<V0>();
            let b = world.read_storage::<D0>();
            drive!(run, world, par = yes, (&a, &b), |(x, y)| [x.js(), y.js()])
        }
        "r_fr" => {
            let a = world.read_storage::<FD0>();
            let b = world.read_storage::<FV0>();
            drive!(run, world, par = yes, (&a, &b), |(x, y)| [x.js(), y.js()])
        }
        "w_r" => {
            let mut a = world.write_storage::<V0>();
            let b = world.read_storage::<D0>();
            drive!(run, world, par = yes, (&mut a, &b), |(x, y)| [w(x), y.js()])
        }
        "e_r" => {
            let b = world.read_storage::<D0>();
            drive!(run, world, par = yes, (&ents, &b), |(e, y)| [ej(e), y.js()])
        }
        "e_w_r" => {
            let mut b = world.write_storage::<D0>();
            let c = world.read_storage::<H0>();
            drive!(run, world, par = yes, (&ents, &mut b, &c), |(e, y, z)| [ej(e), w(y), z.js()])
        }
        "r_n" => {
            let a = world.read_storage::<V0>();
            let b = world.read_storage::<D0>();
            drive!(run, world, par = yes, (&a, !&b), |(x, _u)| [x.js(), json!([UNIT])])
        }
        "e_n" => {
            let b = world.read_storage::<D0>();
            drive!(run, world, par = yes, (&ents, !&b), |(e, _u)| [ej(e), json!([UNIT])])
        }
        "r_m" => {
            let a = world.read_storage::<V0>();
            let b = world.read_storage::<D0>();
            drive!(run, world, par = yes, (&a, (&b).maybe()), |(x, y)| [x.js(), ro(y)])
        }
        "w_mw" => {
            let mut a = world.write_storage::<V0>();
            let mut b = world.write_storage::<D0>();
            drive!(run, world, par = yes, (&mut a, (&mut b).maybe()), |(x, y)| [w(x), wo(y)])
        }
        "e_m_m" => {
            let b = world.read_storage::<D0>();
            let c = world.read_storage::<H0>();
            drive!(run, world, par = yes, (&ents, (&b).maybe(), (&c).maybe()), |(e, y, z)| [ej(e), ro(y), ro(z)])
        }
        "e_mm_nest" => {
            // the optional members grouped in a tuple of their own (a joinable member like any other)
            let b = world.read_storage::<D0>();
            let c = world.read_storage::<H0>();
            drive!(run, world, par = yes, (&ents, ((&b).maybe(), (&c).maybe())), |(e, (y, z))| [ej(e), ro(y), ro(z)])
        }
        "b_r" => {
            let bs = &s.bitsets[0];
            let b = world.read_storage::<D0>();
            drive!(run, world, par = yes, (bs, &b), |(i, y)| [json!([i]), y.js()])
        }
        "bv" => {
            let bs = &s.bitsets[0];
            drive!(run, world, par = yes, (bs.clone(),), |(i,)| [json!([i])])
        }
        "ab_r" => {
            let abs: specs::hibitset::AtomicBitSet = (&s.bitsets[0]).iter().collect();
            let b = world.read_storage::<D0>();
            drive!(run, world, par = yes, (&abs, &b), |(i, y)| [json!([i]), y.js()])
        }
        "abv" => {
            let mk = || -> specs::hibitset::AtomicBitSet { (&s.bitsets[0]).iter().collect() };
            drive!(run, world, par = yes, (mk(),), |(i,)| [json!([i])])
        }
        "dyn_r" => {
            let bs: &dyn BitSetLike = &s.bitsets[0];
            let b = world.read_storage::<D0>();
            drive!(run, world, par = no, (bs, &b), |(i, y)| [json!([i]), y.js()])
        }
        "rband_r" => {
            let both = BitSetAnd(&s.bitsets[0], &s.bitsets2[0]);
            let b = world.read_storage::<D0>();
            drive!(run, world, par = yes, (&both, &b), |(i, y)| [json!([i]), y.js()])
        }
        "rbor" => {
            let either = BitSetOr(&s.bitsets[0], &s.bitsets2[0]);
            drive!(run, world, par = yes, (&either,), |(i,)| [json!([i])])
        }
        "rbnot_r" => {
            let neg = BitSetNot(&s.bitsets[0]);
            let b = world.read_storage::<D0>();
            drive!(run, world, par = yes, (&neg, &b), |(i, y)| [json!([i]), y.js()])
        }
        "u_n" => {
            let a = world.read_storage::<V0>();
            let mut c = None;
            let r = drive_u!(run, world, &mut c, (!&a,), |(_u,)| false, [json!([UNIT])]);
            run.count.set(c);
            r
        }
        "u_m" => {
            let a = world.read_storage::<V0>();
            let mut c = None;
            let r = drive_u!(run, world, &mut c, ((&a).maybe(),), |(x,)| x.is_some(), [ro(x)]);
            run.count.set(c);
            r
        }
        "u_n_m" => {
            let a = world.read_storage::<V0>();
            let b = world.read_storage::<D0>();
            let mut c = None;
            let r = drive_u!(run, world, &mut c, (!&a, (&b).maybe()), |(_u, y)| y.is_some(), [json!([UNIT]), ro(y)]);
            run.count.set(c);
            r
        }
        "u_mw" => {
            let mut a = world.write_storage::<V0>();
            let mut c = None;
            let r = drive_u!(run, world, &mut c, ((&mut a).maybe(),), |(x,)| x.is_some(), [wo(x)]);
            run.count.set(c);
            r
        }
        "u_bnot_m" => {
            let b1 = &s.bitsets[0];
            let b = world.read_storage::<D0>();
            let watch = &run.watch;
            let mut c = None;
            let r = drive_u!(run, world, &mut c, (BitSetNot(b1), (&b).maybe()), |(i, y)| y.is_some() || watch.binary_search(&i).is_ok(), [json!([i]), ro(y)]);
            run.count.set(c);
            r
        }
        "band_r" => {
            let (b1, b2) = (&s.bitsets[0], &s.bitsets2[0]);
            let b = world.read_storage::<D0>();
            drive!(run, world, par = yes, (BitSetAnd(b1, b2), &b), |(i, y)| [json!([i]), y.js()])
        }
        "bor" => {
            let (b1, b2) = (&s.bitsets[0], &s.bitsets2[0]);
            drive!(run, world, par = yes, (BitSetOr(b1, b2),), |(i,)| [json!([i])])
        }
        "bnot_r" => {
            let b1 = &s.bitsets[0];
            let b = world.read_storage::<D0>();
            drive!(run, world, par = yes, (BitSetNot(b1), &b), |(i, y)| [json!([i]), y.js()])
        }
        "bxor_m" => {
            let (b1, b2) = (&s.bitsets[0], &s.bitsets2[0]);
            let b = world.read_storage::<D0>();
            drive!(run, world, par = yes, (BitSetXor(b1, b2), (&b).maybe()), |(i, y)| [json!([i]), ro(y)])
        }
        "rs_r" => {
            let a = world.read_storage::<V0>();
            let b = world.read_storage::<D0>();
            let r = a.restrict();
            drive!(run, world, par = yes, (&r, &b), |(x, y)| [x.get().js(), y.js()])
        }
        "rsm_r" => {
            let mut a = world.write_storage::<V0>();
            let b = world.read_storage::<D0>();
            match run.variant {
                // `&'rf mut RestrictedStorage<'rf>`: one borrow per restricted view
                "lend" | "lend_for_each" | "lend_get" => {
                    let mut r = a.restrict_mut();
                    let mut gets: Vec<Value> = vec![];
                    let mut v = vec![];
                    let mut it = (&mut r, &b).lend_join();
                    if run.variant == "lend_get" {
                        for &e in run.probe.iter() {
                            let g = match it.get(e, &ents) {
                                Some((mut x, y)) => {
                                    let mut acc = x.get_mut();
                                    json!([w(&mut *acc), y.js()])
                                }
                                None => json!([]),
                            };
                            gets.push(json!([[e.id(), e.gen().id()], ents.is_alive(e), g]));
                        }
                    } else {
                        while let Some((mut x, y)) = it.next() {
                            let mut acc = x.get_mut();
                            v.push(json!([w(&mut *acc), y.js()]));
                        }
                    }
                    (v, gets)
                }
                "par" => {
                    let mut r = a.restrict_mut();
                    let pool = rayon::ThreadPoolBuilder::new().num_threads(run.threads.max(1)).build().unwrap();
                    let out = Mutex::new(Vec::<Value>::new());
                    pool.install(|| {
                        (&mut r, &b).par_join().for_each(|(mut x, y)| {
                            let mut acc = x.get_mut();
                            let v = json!([w(&mut *acc), y.js()]);
                            out.lock().unwrap().push(v);
                        })
                    });
                    (out.into_inner().unwrap(), vec![])
                }
                "split" => {
                    let mut r = a.restrict_mut();
                    let mut v = vec![];
                    let mut dec = run.tree.iter().copied();
                    specs::join::verif_split_fold((&mut r, &b), &mut dec, |leaf: usize, (mut x, y)| {
                        let mut acc = x.get_mut();
                        v.push(json!([w(&mut *acc), y.js(), ["leaf", leaf]]));
                    });
                    (v, vec![])
                }
                _ => {
                    let mut r = a.restrict_mut();
                    let v = (&mut r, &b)
                        .join()
                        .map(|(mut x, y)| {
                            let mut acc = x.get_mut();
                            json!([w(&mut *acc), y.js()])
                        })
                        .collect();
                    (v, vec![])
                }
            }
        }
        "e_rsm" => {
            let mut a = world.write_storage::<D0>();
            let mut r = a.restrict_mut();
            let v: Vec<Value> = match run.variant {
                "par" => {
                    let pool = rayon::ThreadPoolBuilder::new().num_threads(run.threads.max(1)).build().unwrap();
                    let out = Mutex::new(Vec::<Value>::new());
                    pool.install(|| {
                        (&ents, &mut r).par_join().for_each(|(e, mut x)| {
                            let mut acc = x.get_mut();
                            let v = json!([ej(e), w(&mut *acc)]);
                            out.lock().unwrap().push(v);
                        })
                    });
                    out.into_inner().unwrap()
                }
                "split" => {
                    let mut v = vec![];
                    let mut dec = run.tree.iter().copied();
                    specs::join::verif_split_fold((&ents, &mut r), &mut dec, |leaf: usize, (e, mut x)| {
                        let mut acc = x.get_mut();
                        v.push(json!([ej(e), w(&mut *acc), ["leaf", leaf]]));
                    });
                    v
                }
                _ => (&ents, &mut r)
                    .join()
                    .map(|(e, mut x)| {
                        let mut acc = x.get_mut();
                        json!([ej(e), w(&mut *acc)])
                    })
                    .collect(),
            };
            (v, vec![])
        }
        "res_fb_r" => {
            let f = world.fetch::<BitSet>();
            let b = world.read_storage::<D0>();
            drive!(run, world, par = yes, (&f, &b), |(i, y)| [json!([i]), y.js()])
        }
        "res_rb_r" => {
            let f: Read<BitSet> = world.system_data();
            let b = world.read_storage::<D0>();
            drive!(run, world, par = yes, (&f, &b), |(i, y)| [json!([i]), y.js()])
        }
        "res_reb_r" => {
            let f: ReadExpect<BitSet> = world.system_data();
            let b = world.read_storage::<D0>();
            drive!(run, world, par = yes, (&f, &b), |(i, y)| [json!([i]), y.js()])
        }
        "res_fmcs_w" => {
            let mut c = world.fetch_mut::<ChangeSet<Amt>>();
            let mut b = world.write_storage::<D0>();
            drive!(run, world, par = no, (&mut c, &mut b), |(x, y)| [{ let bx = x.js(); x.val += 1; bx }, w(y)])
        }
        "res_wcs_w" => {
            let mut c: Write<ChangeSet<Amt>> = world.system_data();
            let mut b = world.write_storage::<D0>();
            drive!(run, world, par = no, (&mut c, &mut b), |(x, y)| [{ let bx = x.js(); x.val += 1; bx }, w(y)])
        }
        "res_wecs_w" => {
            let mut c: WriteExpect<ChangeSet<Amt>> = world.system_data();
            let mut b = world.write_storage::<D0>();
            drive!(run, world, par = no, (&mut c, &mut b), |(x, y)| [{ let bx = x.js(); x.val += 1; bx }, w(y)])
        }
        "cs_r" => {
            let c = s.csets[0].as_ref().unwrap();
            let b = world.read_storage::<D0>();
            drive!(run, world, par = no, (c, &b), |(x, y)| [x.js(), y.js()])
        }
        "csm_w" => {
            let c = s.csets[0].as_mut().unwrap();
            let mut b = world.write_storage::<D0>();
            match run.variant {
                "lend" | "lend_for_each" => {
                    let mut v = vec![];
                    let mut it = (&mut *c, &mut b).lend_join();
                    while let Some((x, y)) = it.next() {
                        let bx = x.js();
                        x.val += 1;
                        v.push(json!([bx, w(y)]));
                    }
                    (v, vec![])
                }
                _ => {
                    let v = (&mut *c, &mut b)
                        .join()
                        .map(|(x, y)| {
                            let bx = x.js();
                            x.val += 1;
                            json!([bx, w(y)])
                        })
                        .collect();
                    (v, vec![])
                }
            }
        }
        "csv_r" => {
            let c = s.csets[0].take().unwrap();
            let b = world.read_storage::<D0>();
            let v = match run.variant {
                "lend" | "lend_for_each" => {
                    let mut v = vec![];
                    let mut it = (c, &b).lend_join();
                    while let Some((x, y)) = it.next() {
                        v.push(json!([x.js(), y.js()]));
                    }
                    v
                }
                _ => (c, &b).join().map(|(x, y)| json!([x.js(), y.js()])).collect(),
            };
            (v, vec![])
        }
        "dr_r" => {
            let mut a = world.write_storage::<V0>();
            let b = world.read_storage::<D0>();
            let v = match run.variant {
                "lend" | "lend_for_each" => {
                    let mut v = vec![];
                    let mut it = (a.drain(), &b).lend_join();
                    while let Some((x, y)) = it.next() {
                        v.push(json!([x.js(), y.js()]));
                        crate::ledger::give_back(x);
                    }
                    v
                }
                _ => (a.drain(), &b)
                    .join()
                    .map(|(x, y)| {
                        let j = json!([x.js(), y.js()]);
                        crate::ledger::give_back(x);
                        j
                    })
                    .collect(),
            };
            (v, vec![])
        }
        "dr" => {
            let mut a = world.write_storage::<V0>();
            let v = (a.drain(),)
                .join()
                .map(|(x,)| {
                    let j = json!([x.js()]);
                    crate::ledger::give_back(x);
                    j
                })
                .collect();
            (v, vec![])
        }
        "e_dr" => {
            let mut a = world.write_storage::<D0>();
            let v = (&ents, a.drain())
                .join()
                .map(|(e, x)| {
                    let j = json!([ej(e), x.js()]);
                    crate::ledger::give_back(x);
                    j
                })
                .collect();
            (v, vec![])
        }
        "a3" => {
            let mut a = world.write_storage::<V0>();
            let b = world.read_storage::<D0>();
            let c = world.read_storage::<H0>();
            drive!(run, world, par = yes, (&mut a, &b, &c), |(x, y, z)| [w(x), y.js(), z.js()])
        }
        "a4" => {
            let a = world.read_storage::<V0>();
            let mut b = world.write_storage::<D0>();
            let c = world.read_storage::<H0>();
            let d = world.read_storage::<B0>();
            drive!(run, world, par = yes, (&a, &mut b, &c, (&d).maybe()), |(x, y, z, u)| [x.js(), w(y), z.js(), ro(u)])
        }
        "a5" => {
            let b = world.read_storage::<D0>();
            let mut c = world.write_storage::<H0>();
            let d = world.read_storage::<B0>();
            let f = world.read_storage::<F0>();
            drive!(run, world, par = yes, (&ents, &b, &mut c, !&d, &f), |(e, y, z, _u, q)| [ej(e), y.js(), w(z), json!([UNIT]), q.js()])
        }
        "a8" => {
            let mut a = world.write_storage::<V0>();
            let b = world.read_storage::<D0>();
            let c = world.read_storage::<H0>();
            let d = world.read_storage::<B0>();
            let f = world.read_storage::<F0>();
            let g = world.read_storage::<V1>();
            let h = world.read_storage::<D1>();
            let i = world.read_storage::<H1>();
            drive!(run, world, par = yes, (&mut a, &b, &c, &d, &f, &g, (&h).maybe(), &i),
                   |(x1, x2, x3, x4, x5, x6, x7, x8)| [w(x1), x2.js(), x3.js(), x4.js(), x5.js(), x6.js(), ro(x7), x8.js()])
        }
        "ar6" => {
            let s0 = world.read_storage::<V0>();
            let s1 = world.read_storage::<D0>();
            let s2 = world.read_storage::<H0>();
            let s3 = world.read_storage::<B0>();
            let s4 = world.read_storage::<F0>();
            let s5 = world.read_storage::<V1>();
            drive!(run, world, par = yes, (&s0, &s1, &s2, &s3, &s4, &s5), |(x0, x1, x2, x3, x4, x5)| [x0.js(), x1.js(), x2.js(), x3.js(), x4.js(), x5.js()])
        }
        "ar7" => {
            let s0 = world.read_storage::<V0>();
            let s1 = world.read_storage::<D0>();
            let s2 = world.read_storage::<H0>();
            let s3 = world.read_storage::<B0>();
            let s4 = world.read_storage::<F0>();
            let s5 = world.read_storage::<V1>();
            let s6 = world.read_storage::<D1>();
            drive!(run, world, par = yes, (&s0, &s1, &s2, &s3, &s4, &s5, &s6), |(x0, x1, x2, x3, x4, x5, x6)| [x0.js(), x1.js(), x2.js(), x3.js(), x4.js(), x5.js(), x6.js()])
        }
        "ar9" => {
            let s0 = world.read_storage::<V0>();
            let s1 = world.read_storage::<D0>();
            let s2 = world.read_storage::<H0>();
            let s3 = world.read_storage::<B0>();
            let s4 = world.read_storage::<F0>();
            let s5 = world.read_storage::<V1>();
            let s6 = world.read_storage::<D1>();
            let s7 = world.read_storage::<H1>();
            let s8 = world.read_storage::<B1>();
            drive!(run, world, par = yes, (&s0, &s1, &s2, &s3, &s4, &s5, &s6, &s7, &s8), |(x0, x1, x2, x3, x4, x5, x6, x7, x8)| [x0.js(), x1.js(), x2.js(), x3.js(), x4.js(), x5.js(), x6.js(), x7.js(), x8.js()])
        }
        "ar10" => {
            let s0 = world.read_storage::<V0>();
            let s1 = world.read_storage::<D0>();
            let s2 = world.read_storage::<H0>();
            let s3 = world.read_storage::<B0>();
            let s4 = world.read_storage::<F0>();
            let s5 = world.read_storage::<V1>();
            let s6 = world.read_storage::<D1>();
            let s7 = world.read_storage::<H1>();
            let s8 = world.read_storage::<B1>();
            let s9 = world.read_storage::<F1>();
            drive!(run, world, par = yes, (&s0, &s1, &s2, &s3, &s4, &s5, &s6, &s7, &s8, &s9), |(x0, x1, x2, x3, x4, x5, x6, x7, x8, x9)| [x0.js(), x1.js(), x2.js(), x3.js(), x4.js(), x5.js(), x6.js(), x7.js(), x8.js(), x9.js()])
        }
        "ar11" => {
            let s0 = world.read_storage::<V0>();
            let s1 = world.read_storage::<D0>();
            let s2 = world.read_storage::<H0>();
            let s3 = world.read_storage::<B0>();
            let s4 = world.read_storage::<F0>();
            let s5 = world.read_storage::<V1>();
            let s6 = world.read_storage::<D1>();
            let s7 = world.read_storage::<H1>();
            let s8 = world.read_storage::<B1>();
            let s9 = world.read_storage::<F1>();
            let s10 = world.read_storage::<V2>();
            drive!(run, world, par = yes, (&s0, &s1, &s2, &s3, &s4, &s5, &s6, &s7, &s8, &s9, &s10), |(x0, x1, x2, x3, x4, x5, x6, x7, x8, x9, x10)| [x0.js(), x1.js(), x2.js(), x3.js(), x4.js(), x5.js(), x6.js(), x7.js(), x8.js(), x9.js(), x10.js()])
        }
        "ar12" => {
            let s0 = world.read_storage::<V0>();
            let s1 = world.read_storage::<D0>();
            let s2 = world.read_storage::<H0>();
            let s3 = world.read_storage::<B0>();
            let s4 = world.read_storage::<F0>();
            let s5 = world.read_storage::<V1>();
            let s6 = world.read_storage::<D1>();
            let s7 = world.read_storage::<H1>();
            let s8 = world.read_storage::<B1>();
            let s9 = world.read_storage::<F1>();
            let s10 = world.read_storage::<V2>();
            let s11 = world.read_storage::<D2>();
            drive!(run, world, par = yes, (&s0, &s1, &s2, &s3, &s4, &s5, &s6, &s7, &s8, &s9, &s10, &s11), |(x0, x1, x2, x3, x4, x5, x6, x7, x8, x9, x10, x11)| [x0.js(), x1.js(), x2.js(), x3.js(), x4.js(), x5.js(), x6.js(), x7.js(), x8.js(), x9.js(), x10.js(), x11.js()])
        }
        "ar13" => {
            let s0 = world.read_storage::<V0>();
            let s1 = world.read_storage::<D0>();
            let s2 = world.read_storage::<H0>();
            let s3 = world.read_storage::<B0>();
            let s4 = world.read_storage::<F0>();
            let s5 = world.read_storage::<V1>();
            let s6 = world.read_storage::<D1>();
            let s7 = world.read_storage::<H1>();
            let s8 = world.read_storage::<B1>();
            let s9 = world.read_storage::<F1>();
            let s10 = world.read_storage::<V2>();
            let s11 = world.read_storage::<D2>();
            let s12 = world.read_storage::<H2>();
            drive!(run, world, par = yes, (&s0, &s1, &s2, &s3, &s4, &s5, &s6, &s7, &s8, &s9, &s10, &s11, &s12), |(x0, x1, x2, x3, x4, x5, x6, x7, x8, x9, x10, x11, x12)| [x0.js(), x1.js(), x2.js(), x3.js(), x4.js(), x5.js(), x6.js(), x7.js(), x8.js(), x9.js(), x10.js(), x11.js(), x12.js()])
        }
        "ar14" => {
            let s0 = world.read_storage::<V0>();
            let s1 = world.read_storage::<D0>();
            let s2 = world.read_storage::<H0>();
            let s3 = world.read_storage::<B0>();
            let s4 = world.read_storage::<F0>();
            let s5 = world.read_storage::<V1>();
            let s6 = world.read_storage::<D1>();
            let s7 = world.read_storage::<H1>();
            let s8 = world.read_storage::<B1>();
            let s9 = world.read_storage::<F1>();
            let s10 = world.read_storage::<V2>();
            let s11 = world.read_storage::<D2>();
            let s12 = world.read_storage::<H2>();
            let s13 = world.read_storage::<B2>();
            drive!(run, world, par = yes, (&s0, &s1, &s2, &s3, &s4, &s5, &s6, &s7, &s8, &s9, &s10, &s11, &s12, &s13), |(x0, x1, x2, x3, x4, x5, x6, x7, x8, x9, x10, x11, x12, x13)| [x0.js(), x1.js(), x2.js(), x3.js(), x4.js(), x5.js(), x6.js(), x7.js(), x8.js(), x9.js(), x10.js(), x11.js(), x12.js(), x13.js()])
        }
        "ar15" => {
            let s0 = world.read_storage::<V0>();
            let s1 = world.read_storage::<D0>();
            let s2 = world.read_storage::<H0>();
            let s3 = world.read_storage::<B0>();
            let s4 = world.read_storage::<F0>();
            let s5 = world.read_storage::<V1>();
            let s6 = world.read_storage::<D1>();
            let s7 = world.read_storage::<H1>();
            let s8 = world.read_storage::<B1>();
            let s9 = world.read_storage::<F1>();
            let s10 = world.read_storage::<V2>();
            let s11 = world.read_storage::<D2>();
            let s12 = world.read_storage::<H2>();
            let s13 = world.read_storage::<B2>();
            let s14 = world.read_storage::<F2>();
            drive!(run, world, par = yes, (&s0, &s1, &s2, &s3, &s4, &s5, &s6, &s7, &s8, &s9, &s10, &s11, &s12, &s13, &s14), |(x0, x1, x2, x3, x4, x5, x6, x7, x8, x9, x10, x11, x12, x13, x14)| [x0.js(), x1.js(), x2.js(), x3.js(), x4.js(), x5.js(), x6.js(), x7.js(), x8.js(), x9.js(), x10.js(), x11.js(), x12.js(), x13.js(), x14.js()])
        }
        "a16" | "a16e" => {
            // 16 members is the largest tuple for which the mask combination (BitAnd) exists
            let s1 = world.read_storage::<D0>();
            let s2 = world.read_storage::<H0>();
            let s3 = world.read_storage::<B0>();
            let s4 = world.read_storage::<F0>();
            let s5 = world.read_storage::<V1>();
            let s6 = world.read_storage::<D1>();
            let s7 = world.read_storage::<H1>();
            let s8 = world.read_storage::<B1>();
            let s9 = world.read_storage::<F1>();
            let s10 = world.read_storage::<V2>();
            let s11 = world.read_storage::<D2>();
            let s12 = world.read_storage::<H2>();
            let s13 = world.read_storage::<B2>();
            let s14 = world.read_storage::<F2>();
            let s15 = world.read_storage::<N0>();
            if shape == "a16" {
                let mut s0 = world.write_storage::<V0>();
                drive!(run, world, par = yes,
                    (&mut s0, &s1, &s2, &s3, &s4, &s5, &s6, &s7, &s8, &s9, &s10, &s11, &s12, &s13, &s14, &s15),
                    |(x0, x1, x2, x3, x4, x5, x6, x7, x8, x9, x10, x11, x12, x13, x14, x15)|
                    [w(x0), x1.js(), x2.js(), x3.js(), x4.js(), x5.js(), x6.js(), x7.js(), x8.js(), x9.js(), x10.js(), x11.js(), x12.js(), x13.js(), x14.js(), x15.js()])
            } else {
                // member 0 is the entities resource, member 1 is written, the last one is optional
                drop(s1);
                let mut t1 = world.write_storage::<D0>();
                drive!(run, world, par = yes,
                    (&ents, &mut t1, &s2, &s3, &s4, &s5, &s6, &s7, &s8, &s9, &s10, &s11, &s12, &s13, &s14, (&s15).maybe()),
                    |(e, x1, x2, x3, x4, x5, x6, x7, x8, x9, x10, x11, x12, x13, x14, x15)|
                    [ej(e), w(x1), x2.js(), x3.js(), x4.js(), x5.js(), x6.js(), x7.js(), x8.js(), x9.js(), x10.js(), x11.js(), x12.js(), x13.js(), x14.js(), ro(x15)])
            }
        }
        _ => (vec![], vec![]),
    }
}

pub fn run_file(input: &str, out: &mut Out) {
    let text = std::fs::read_to_string(input).expect("read scripts");
    for line in text.lines() {
        if line.trim().is_empty() {
            continue;
        }
        let script: Value = serde_json::from_str(line).expect("script json");
        out.begin_script(&script["tid"]);
        crate::ledger::reset();
        let ev = run_script(&script);
        out.line(&ev.to_string());
    }
}

#[allow(dead_code)]
fn _unused(_: BTreeMap<u32, u32>) {
    let _ = <VecStorage<V0> as UnprotectedStorage<V0>>::get;
}
