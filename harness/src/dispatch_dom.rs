//! Dispatch domain (C11).
//!  * "table": for every storage handle type, what it declares (reads() /
//!    writes()) against what fetch() really borrows from the world (probed
//!    with fetch / fetch_mut under catch_unwind while the handle is held);
//!  * "dispatch": graphs of instrumented systems run on the real dispatcher
//!    with pools of various sizes; every run of a system logs enter / exit
//!    sequence numbers taken inside its borrow and bumps per-resource
//!    reader / writer counters.
//! Dispatch.tla decides.

use crate::util::{catch, Out};
use serde_json::{json, Value};
use specs::prelude::*;
use specs::shred::ResourceId;
use specs::storage::MaskedStorage;
use specs::world::EntitiesRes;
use std::sync::atomic::{AtomicI32, AtomicUsize, Ordering};
use std::sync::{Arc, Mutex};

// (DA and DB own heap data - they have destructors; the others are plain data)
#[derive(Default)]
pub struct DA(Box<u32>);
impl Component for DA {
    type Storage = VecStorage<Self>;
}
#[derive(Default)]
pub struct DB(String);
impl Component for DB {
    type Storage = DenseVecStorage<Self>;
}
#[derive(Default)]
pub struct DC(u32);
impl Component for DC {
    type Storage = HashMapStorage<Self>;
}
#[derive(Default)]
pub struct DZ;
impl Component for DZ {
    type Storage = NullStorage<Self>;
}
#[derive(Default)]
pub struct DF(u32);
impl Component for DF {
    type Storage = FlaggedStorage<Self, VecStorage<Self>>;
}

/// a user-defined, non-generic storage shared by two component types
#[derive(Default)]
pub struct U32Store(std::collections::HashMap<u32, u32>);
#[repr(transparent)]
pub struct DX(u32);
#[repr(transparent)]
pub struct DY(u32);
macro_rules! u32store_for {
    ($t:ident) => {
        impl Component for $t {
            type Storage = U32Store;
        }
        impl specs::storage::UnprotectedStorage<$t> for U32Store {
            type AccessMut<'a> = &'a mut $t;
            unsafe fn clean<B: specs::hibitset::BitSetLike>(&mut self, _has: B) {
                self.0.clear();
            }
            unsafe fn get(&self, id: u32) -> &$t {
                // SAFETY: $t is repr(transparent) over u32
                unsafe { &*(self.0.get(&id).unwrap() as *const u32 as *const $t) }
            }
            unsafe fn get_mut(&mut self, id: u32) -> &mut $t {
                // SAFETY: $t is repr(transparent) over u32
                unsafe { &mut *(self.0.get_mut(&id).unwrap() as *mut u32 as *mut $t) }
            }
            unsafe fn insert(&mut self, id: u32, v: $t) {
                self.0.insert(id, v.0);
            }
            unsafe fn remove(&mut self, id: u32) -> $t {
                $t(self.0.remove(&id).unwrap())
            }
        }
    };
}
u32store_for!(DX);
u32store_for!(DY);

const RES: &[&str] = &["Entities", "A", "B", "C", "Z", "F", "Lazy", "X", "Y"];

fn res_ids() -> Vec<(ResourceId, &'static str)> {
    vec![
        (ResourceId::new::<EntitiesRes>(), "Entities"),
        (ResourceId::new::<MaskedStorage<DA>>(), "A"),
        (ResourceId::new::<MaskedStorage<DB>>(), "B"),
        (ResourceId::new::<MaskedStorage<DC>>(), "C"),
        (ResourceId::new::<MaskedStorage<DZ>>(), "Z"),
        (ResourceId::new::<MaskedStorage<DF>>(), "F"),
        (ResourceId::new::<LazyUpdate>(), "Lazy"),
        (ResourceId::new::<MaskedStorage<DX>>(), "X"),
        (ResourceId::new::<MaskedStorage<DY>>(), "Y"),
    ]
}

fn names(ids: Vec<ResourceId>) -> Vec<String> {
    let table = res_ids();
    let mut v: Vec<String> = ids
        .into_iter()
        .map(|i| table.iter().find(|(r, _)| *r == i).map(|(_, n)| n.to_string()).unwrap_or_else(|| "?".into()))
        .collect();
    v.sort();
    v
}

fn new_world() -> World {
    let mut w = World::new();
    w.register::<DA>();
    w.register::<DB>();
    w.register::<DC>();
    w.register::<DZ>();
    w.register::<DF>();
    w.register::<DX>();
    w.register::<DY>();
    w
}

/// how is each resource borrowed right now? (called while a handle is held)
fn probe(world: &World) -> (Vec<String>, Vec<String>) {
    let mut shared = vec![];
    let mut excl = vec![];
    macro_rules! p {
        ($t:ty, $n:expr) => {{
            let can_read = catch(|| {
                let _f = world.fetch::<$t>();
            })
            .is_ok();
            let can_write = catch(|| {
                let _f = world.fetch_mut::<$t>();
            })
            .is_ok();
            if !can_read {
                excl.push($n.to_string());
            } else if !can_write {
                shared.push($n.to_string());
            }
        }};
    }
    p!(EntitiesRes, "Entities");
    p!(MaskedStorage<DA>, "A");
    p!(MaskedStorage<DB>, "B");
    p!(MaskedStorage<DC>, "C");
    p!(MaskedStorage<DZ>, "Z");
    p!(MaskedStorage<DF>, "F");
    p!(LazyUpdate, "Lazy");
    p!(MaskedStorage<DX>, "X");
    p!(MaskedStorage<DY>, "Y");
    (shared, excl)
}

/// Fetching a handle must need nothing beyond what it declares - not even for a moment: with every
/// resource it does not declare held exclusively by somebody else, and every resource it declares to
/// read held shared by somebody else, the fetch must still succeed.  Returns the names of the
/// resources whose foreign borrow made the fetch fail.
fn hostile<F: Fn(&World)>(world: &World, decl_r: &[String], decl_w: &[String], fetch: F) -> Vec<String> {
    let mut failed = vec![];
    macro_rules! h {
        ($t:ty, $n:expr) => {{
            let n: &str = $n;
            if decl_w.iter().any(|x| x == n) {
                // declared as written: nobody else may hold it
            } else if decl_r.iter().any(|x| x == n) {
                let _other = world.fetch::<$t>();
                if catch(|| fetch(world)).is_err() {
                    failed.push(format!("{} (held shared by another reader)", n));
                }
            } else {
                let _other = world.fetch_mut::<$t>();
                if catch(|| fetch(world)).is_err() {
                    failed.push(format!("{} (not declared, held exclusively by somebody else)", n));
                }
            }
        }};
    }
    h!(EntitiesRes, "Entities");
    h!(MaskedStorage<DA>, "A");
    h!(MaskedStorage<DB>, "B");
    h!(MaskedStorage<DC>, "C");
    h!(MaskedStorage<DZ>, "Z");
    h!(MaskedStorage<DF>, "F");
    h!(LazyUpdate, "Lazy");
    h!(MaskedStorage<DX>, "X");
    h!(MaskedStorage<DY>, "Y");
    failed
}

fn table(tid: &Value) -> Value {
    let world = new_world();
    // (a deferred deletion is pending while the handles are fetched)
    {
        let ents = world.entities();
        let e = ents.create();
        let _ = ents.delete(e);
    }
    let mut rows = vec![];
    macro_rules! row {
        ($name:expr, $t:ty) => {{
            let dr = names(<$t as SystemData>::reads());
            let dw = names(<$t as SystemData>::writes());
            let held = <$t as SystemData>::fetch(&world);
            let (shared, excl) = probe(&world);
            drop(held);
            let hostile_failed = hostile(&world, &dr, &dw, |w| {
                let _h = <$t as SystemData>::fetch(w);
            });
            rows.push(json!({"name": $name, "decl_r": dr, "decl_w": dw, "shared": shared, "excl": excl, "hostile": hostile_failed}));
        }};
    }
    row!("ReadStorage<A:VecStorage>", ReadStorage<DA>);
    row!("ReadStorage<B:DenseVecStorage>", ReadStorage<DB>);
    row!("ReadStorage<C:HashMapStorage>", ReadStorage<DC>);
    row!("ReadStorage<Z:NullStorage>", ReadStorage<DZ>);
    row!("ReadStorage<F:FlaggedStorage>", ReadStorage<DF>);
    row!("WriteStorage<A:VecStorage>", WriteStorage<DA>);
    row!("WriteStorage<B:DenseVecStorage>", WriteStorage<DB>);
    row!("WriteStorage<C:HashMapStorage>", WriteStorage<DC>);
    row!("WriteStorage<Z:NullStorage>", WriteStorage<DZ>);
    row!("WriteStorage<F:FlaggedStorage>", WriteStorage<DF>);
    row!("WriteStorage<X:custom shared storage type>", WriteStorage<DX>);
    row!("WriteStorage<Y:custom shared storage type>", WriteStorage<DY>);
    row!("ReadStorage<X:custom shared storage type>", ReadStorage<DX>);
    row!("ReadStorage<Y:custom shared storage type>", ReadStorage<DY>);
    row!("Entities", Entities);
    row!("Read<LazyUpdate>", Read<LazyUpdate>);
    row!("(Entities, ReadStorage<A>, WriteStorage<B>)", (Entities, ReadStorage<DA>, WriteStorage<DB>));
    row!("(WriteStorage<Z>, ReadStorage<C>, Read<LazyUpdate>)", (WriteStorage<DZ>, ReadStorage<DC>, Read<LazyUpdate>));
    json!({"op":"Table","tid":tid,"rows":rows})
}

// ----------------------------------------------------------------- dispatch
struct Shared {
    seq: AtomicUsize,
    readers: Vec<AtomicI32>,
    writers: Vec<AtomicI32>,
    log: Mutex<Vec<(usize, usize, usize, usize)>>, // sys, enter, exit, round
    conflicts: Mutex<Vec<String>>,
    round: AtomicUsize,
    made: Mutex<Vec<(usize, usize, u32, i32)>>, // sys, round, handle of an entity the system created
}

fn ridx(n: &str) -> usize {
    RES.iter().position(|r| *r == n).unwrap()
}

struct Meta {
    id: usize,
    reads: Vec<usize>,
    writes: Vec<usize>,
    spin: u32,
    sh: Arc<Shared>,
}

impl Meta {
    /// the system creates a few entities through the shared entities resource (other systems of the
    /// stage may be doing the same at this moment), notes the handles and deletes them again: the
    /// deletions take effect at the maintain that follows the round, so that the next round recycles
    fn churn(&self, ents: &Entities) {
        let round = self.sh.round.load(Ordering::SeqCst);
        // (a varying number, so that the list of recycled indices runs empty in the middle of a stage)
        let es: Vec<Entity> = (0..(2 + (round + self.id) % 3)).map(|_| ents.create()).collect();
        {
            let mut made = self.sh.made.lock().unwrap();
            for e in &es {
                made.push((self.id, round, e.id(), e.gen().id()));
            }
        }
        for e in es {
            let _ = ents.delete(e);
        }
    }

    fn run(&self) {
        self.run_with(|| {})
    }

    /// `f` uses the system's data while the system is inside its logged window
    fn run_with<F: FnOnce()>(&self, f: F) {
        let sh = &self.sh;
        let enter = sh.seq.fetch_add(1, Ordering::SeqCst);
        for &r in &self.reads {
            sh.readers[r].fetch_add(1, Ordering::SeqCst);
            if sh.writers[r].load(Ordering::SeqCst) > 0 {
                sh.conflicts.lock().unwrap().push(format!("system {} reads {} while it is being written", self.id, RES[r]));
            }
        }
        for &w in &self.writes {
            let other_w = sh.writers[w].fetch_add(1, Ordering::SeqCst);
            if other_w > 0 || sh.readers[w].load(Ordering::SeqCst) > 0 {
                sh.conflicts.lock().unwrap().push(format!("system {} writes {} while another system uses it", self.id, RES[w]));
            }
        }
        let mut x = 0u64;
        for k in 0..(self.spin as u64 * 2000) {
            x = x.wrapping_mul(6364136223846793005).wrapping_add(k);
        }
        std::hint::black_box(x);
        f();
        if self.spin > 3 {
            std::thread::sleep(std::time::Duration::from_micros(150));
        }
        for &w in &self.writes {
            sh.writers[w].fetch_sub(1, Ordering::SeqCst);
        }
        for &r in &self.reads {
            sh.readers[r].fetch_sub(1, Ordering::SeqCst);
        }
        let exit = sh.seq.fetch_add(1, Ordering::SeqCst);
        let round = sh.round.load(Ordering::SeqCst);
        sh.log.lock().unwrap().push((self.id, enter, exit, round));
    }
}

/// installed at the library's yield points (cfg specs_verif) while a dispatch runs: now and then the
/// thread gives way or spins for a moment between two atomic steps
static HOOK_CALLS: std::sync::atomic::AtomicU64 = std::sync::atomic::AtomicU64::new(0);

fn jitter(_site: u32) {
    // a thread that passes yield points without end makes no progress (a retry loop that cannot succeed):
    // reported as a panic of the system instead of hanging the run
    if HOOK_CALLS.fetch_add(1, Ordering::Relaxed) > 20_000_000 {
        panic!("no progress: more than 20 million atomic steps of shared-access allocation in one dispatch run");
    }
    thread_local!(static RNG: std::cell::Cell<u64> = std::cell::Cell::new(0x9E3779B97F4A7C15));
    let x = RNG.with(|c| {
        let mut x = c.get() ^ (std::thread::current().id().as_u64_compat());
        x ^= x << 13;
        x ^= x >> 7;
        x ^= x << 17;
        c.set(x);
        x
    });
    match x % 8 {
        0 => std::thread::yield_now(),
        1 | 2 => {
            for _ in 0..(x >> 8) % 400 {
                std::hint::spin_loop();
            }
        }
        _ => {}
    }
}

trait TidCompat {
    fn as_u64_compat(&self) -> u64;
}
impl TidCompat for std::thread::ThreadId {
    fn as_u64_compat(&self) -> u64 {
        use std::hash::{Hash, Hasher};
        let mut h = std::collections::hash_map::DefaultHasher::new();
        self.hash(&mut h);
        h.finish() | 1
    }
}

/// queue many no-op lazy actions in a tight loop (several systems of one stage do this at once)
fn push_lazy(lazy: &LazyUpdate, spin: u32) {
    for _ in 0..(400 + spin as usize * 400) {
        lazy.exec(|_| {});
    }
}

macro_rules! shape {
    ($name:ident, $data:ty, [$($r:expr),*], [$($w:expr),*]) => {
        shape!($name, $data, [$($r),*], [$($w),*], |_d, _m| {});
    };
    ($name:ident, $data:ty, [$($r:expr),*], [$($w:expr),*], |$d:ident, $m:ident| $use:expr) => {
        struct $name(Meta);
        impl<'a> System<'a> for $name {
            type SystemData = $data;
            fn run(&mut self, $d: Self::SystemData) {
                let $m = &self.0;
                $m.run_with(|| { $use; });
            }
        }
        impl $name {
            fn rw() -> (Vec<&'static str>, Vec<&'static str>) {
                (vec![$($r),*], vec![$($w),*])
            }
        }
    };
}

// what each shape really reads / writes: a ReadStorage<T> reads {Entities, T},
// a WriteStorage<T> reads {Entities} and writes {T}
shape!(S0, (ReadStorage<'a, DA>,), ["Entities", "A"], [], |d, _m| std::hint::black_box((&d.0).join().count()));
shape!(S1, (WriteStorage<'a, DA>,), ["Entities"], ["A"]);
shape!(S2, (ReadStorage<'a, DA>, ReadStorage<'a, DB>), ["Entities", "A", "B"], [], |d, _m| std::hint::black_box((&d.0, &d.1).join().count()));
shape!(S3, (WriteStorage<'a, DA>, ReadStorage<'a, DB>), ["Entities", "B"], ["A"]);
shape!(S4, (ReadStorage<'a, DA>, WriteStorage<'a, DB>), ["Entities", "A"], ["B"]);
shape!(S5, (WriteStorage<'a, DB>, WriteStorage<'a, DC>), ["Entities"], ["B", "C"]);
shape!(S6, (Entities<'a>, ReadStorage<'a, DC>), ["Entities", "C"], [], |d, m| {
    // leaves deferred deletions pending until the maintain that follows the round
    m.churn(&d.0);
});
shape!(S7, (Entities<'a>, WriteStorage<'a, DC>, Read<'a, LazyUpdate>), ["Entities", "Lazy"], ["C"], |d, m| push_lazy(&d.2, m.spin));
shape!(S8, (WriteStorage<'a, DZ>,), ["Entities"], ["Z"]);
shape!(S9, (ReadStorage<'a, DZ>,), ["Entities", "Z"], []);
shape!(S10, (specs::Write<'a, EntitiesRes>,), [], ["Entities"]);
shape!(S11, (ReadStorage<'a, DB>, ReadStorage<'a, DC>, Entities<'a>), ["Entities", "B", "C"], [], |d, m| {
    m.churn(&d.2);
    std::hint::black_box((&d.0, &d.1).join().count());
});
shape!(S12, (WriteStorage<'a, DF>, ReadStorage<'a, DA>), ["Entities", "A"], ["F"]);
shape!(S13, (ReadStorage<'a, DF>,), ["Entities", "F"], []);
shape!(S14, (Read<'a, LazyUpdate>, WriteStorage<'a, DZ>), ["Entities", "Lazy"], ["Z"], |d, m| push_lazy(&d.0, m.spin));
shape!(S15, (WriteStorage<'a, DA>, WriteStorage<'a, DB>, WriteStorage<'a, DC>), ["Entities"], ["A", "B", "C"]);

shape!(S16, (WriteStorage<'a, DX>,), ["Entities"], ["X"]);
shape!(S17, (WriteStorage<'a, DY>, ReadStorage<'a, DX>), ["Entities", "X"], ["Y"]);
shape!(S18, (ReadStorage<'a, DY>,), ["Entities", "Y"], []);
shape!(S19, (Read<'a, LazyUpdate>,), ["Lazy"], [], |d, m| push_lazy(&d.0, m.spin));

const NSHAPES: usize = 20;

fn rw_of(shape: usize) -> (Vec<&'static str>, Vec<&'static str>) {
    match shape {
        0 => S0::rw(), 1 => S1::rw(), 2 => S2::rw(), 3 => S3::rw(), 4 => S4::rw(), 5 => S5::rw(),
        6 => S6::rw(), 7 => S7::rw(), 8 => S8::rw(), 9 => S9::rw(), 10 => S10::rw(), 11 => S11::rw(),
        12 => S12::rw(), 13 => S13::rw(), 14 => S14::rw(), 15 => S15::rw(), 16 => S16::rw(), 17 => S17::rw(), 18 => S18::rw(), _ => S19::rw(),
    }
}

fn dispatch(script: &Value) -> Value {
    let systems = script["systems"].as_array().cloned().unwrap_or_default();
    let threads = script["threads"].as_u64().unwrap_or(4) as usize;
    let rounds = script["rounds"].as_u64().unwrap_or(3) as usize;
    let sh = Arc::new(Shared {
        seq: AtomicUsize::new(1),
        readers: (0..RES.len()).map(|_| AtomicI32::new(0)).collect(),
        writers: (0..RES.len()).map(|_| AtomicI32::new(0)).collect(),
        log: Mutex::new(vec![]),
        conflicts: Mutex::new(vec![]),
        round: AtomicUsize::new(0),
        made: Mutex::new(vec![]),
    });
    // widen the windows between the atomic steps of shared-access creation / deletion
    HOOK_CALLS.store(0, Ordering::Relaxed);
    specs::verif::set_yield_hook(Some(jitter as fn(u32)));
    let mut world = new_world();
    let mut sys_js = vec![];
    let mut stage = 0usize;
    let r = catch(|| {
        let pool = Arc::new(rayon::ThreadPoolBuilder::new().num_threads(threads.max(1)).build().unwrap());
        let mut b = DispatcherBuilder::new().with_pool(pool);
        let names: Vec<String> = (0..systems.len()).map(|i| format!("s{}", i)).collect();
        for (i, s) in systems.iter().enumerate() {
            let shape = s["shape"].as_u64().unwrap_or(0) as usize % NSHAPES;
            if s["barrier"].as_bool().unwrap_or(false) {
                b.add_barrier();
                stage += 1;
            }
            let deps: Vec<usize> = s["deps"].as_array().map(|a| a.iter().filter_map(|x| x.as_u64()).map(|x| x as usize).filter(|&d| d < i).collect()).unwrap_or_default();
            let dep_names: Vec<&str> = deps.iter().map(|&d| names[d].as_str()).collect();
            let (rs, ws) = rw_of(shape);
            let meta = Meta {
                id: i + 1,
                reads: rs.iter().map(|n| ridx(n)).collect(),
                writes: ws.iter().map(|n| ridx(n)).collect(),
                spin: s["spin"].as_u64().unwrap_or(1) as u32,
                sh: sh.clone(),
            };
            sys_js.push(json!({"name": format!("s{}:shape{}", i, shape), "reads": rs, "writes": ws,
                               "deps": deps.iter().map(|d| d + 1).collect::<Vec<_>>(), "stage": stage}));
            macro_rules! add { ($t:ident) => { b.add($t(meta), &names[i], &dep_names) }; }
            match shape {
                0 => add!(S0), 1 => add!(S1), 2 => add!(S2), 3 => add!(S3), 4 => add!(S4), 5 => add!(S5),
                6 => add!(S6), 7 => add!(S7), 8 => add!(S8), 9 => add!(S9), 10 => add!(S10), 11 => add!(S11),
                12 => add!(S12), 13 => add!(S13), 14 => add!(S14), 15 => add!(S15), 16 => add!(S16), 17 => add!(S17), 18 => add!(S18), _ => add!(S19),
            }
        }
        if script["async"].as_bool().unwrap_or(false) {
            // AsyncDispatcher: owns the world, dispatches on the pool, wait() joins
            let w = std::mem::replace(&mut world, World::new());
            let mut d = b.build_async(w);
            d.setup();
            for round in 0..rounds {
                sh.round.store(round, Ordering::SeqCst);
                d.dispatch();
                d.wait();
                d.world_mut().maintain();
            }
        } else {
            let mut d = b.build();
            d.setup(&mut world);
            for round in 0..rounds {
                sh.round.store(round, Ordering::SeqCst);
                d.dispatch(&world);
                world.maintain();
            }
        }
    });
    specs::verif::set_yield_hook(None);
    let made: Vec<Value> = sh.made.lock().unwrap().iter().map(|(s, r, i, g)| json!({"sys": s, "round": r, "h": [i, g]})).collect();
    let log: Vec<Value> = sh.log.lock().unwrap().iter().map(|(s, e, x, r)| json!({"sys": s, "enter": e, "exit": x, "round": r})).collect();
    let conflicts = sh.conflicts.lock().unwrap().clone();
    json!({"op":"Dispatch","tid":script["tid"],"threads":threads,"rounds":rounds,"systems":sys_js,"log":log,
           "conflicts":conflicts,"made":made,"panic": r.err().unwrap_or_default()})
}

pub fn run_file(input: &str, out: &mut Out) {
    let text = std::fs::read_to_string(input).expect("read scripts");
    for line in text.lines() {
        if line.trim().is_empty() {
            continue;
        }
        let script: Value = serde_json::from_str(line).expect("script json");
        out.begin_script(&script["tid"]);
        let ev = if script["kind"] == "table" { table(&script["tid"]) } else { dispatch(&script) };
        out.line(&ev.to_string());
    }
}
