//! ChangeSet domain (C16): feeds (entity, amount) pairs into a real
//! `ChangeSet` by collect / extend / add as the script says and records what
//! the change set then shows through every kind of join.  Amounts are
//! sequences (`+=` appends), so the order of combination is observable.

use crate::comps::*;
use crate::ledger;
use crate::util::{catch, Out};
use serde_json::{json, Value};
use specs::prelude::*;

/// An amount that records *how* it was combined: `+=` builds the expression
/// "(lhs+rhs)", so both the order and the association of the combination show.
#[derive(Debug)]
pub struct Trail {
    cid: u32,
    parts: String,
}
impl Trail {
    fn new(cid: u32, amt: u32) -> Trail {
        ledger::created(cid);
        Trail { cid, parts: amt.to_string() }
    }
}
impl Drop for Trail {
    fn drop(&mut self) {
        ledger::dropped(self.cid);
    }
}
impl std::ops::AddAssign for Trail {
    fn add_assign(&mut self, o: Trail) {
        self.parts = format!("({}+{})", self.parts, o.parts);
    }
}

fn listing(bs: &BitSet, cs: &ChangeSet<Trail>, lend: bool) -> Vec<Value> {
    if lend {
        let mut v = vec![];
        let mut it = (bs, cs).lend_join();
        while let Some((i, t)) = it.next() {
            v.push(json!([i, t.parts]));
        }
        v
    } else {
        (bs, cs).join().map(|(i, t)| json!([i, t.parts])).collect()
    }
}

fn run_script(script: &Value) -> Value {
    let pairs: Vec<(u32, u32)> = script["pairs"]
        .as_array()
        .map(|a| {
            a.iter()
                .map(|p| (p[0].as_u64().unwrap_or(0) as u32, p[1].as_u64().unwrap_or(0) as u32))
                .collect()
        })
        .unwrap_or_default();
    let segs: Vec<(String, usize)> = script["how"]
        .as_array()
        .map(|a| {
            a.iter()
                .map(|s| (s["h"].as_str().unwrap_or("add").to_string(), s["n"].as_u64().unwrap_or(1) as usize))
                .collect()
        })
        .unwrap_or_default();
    let store_ids: Vec<u32> = script["store_ids"]
        .as_array()
        .map(|a| a.iter().filter_map(|x| x.as_u64()).map(|x| x as u32).collect())
        .unwrap_or_default();
    let take = script["take"].as_i64().unwrap_or(-1);
    let lend = script["lend"].as_bool().unwrap_or(false);
    let tag = 9999u32;
    ledger::reset();
    let mut world = World::new();
    world.register::<CDense<0>>();
    // "dead": the first n indices belong to deleted entities, so that the handles made for them below
    // carry a dead generation (a change set goes by the index alone)
    let n_dead = script["dead"].as_u64().unwrap_or(0) as usize;
    // "two": the indices are then taken again by new entities, and the pairs addressed to them alternate between
    // the stale and the live handle of the index
    let mut stale: Vec<Entity> = vec![];
    if n_dead > 0 {
        let es: Vec<Entity> = world.create_iter().take(n_dead).collect();
        let _ = world.delete_entities(&es);
        if script["two"].as_bool().unwrap_or(false) {
            stale = es;
            let _again: Vec<Entity> = world.create_iter().take(n_dead).collect();
        }
    }
    // "inexact": the iterators handed to collect / extend cannot predict their length
    let inexact = script["inexact"].as_bool().unwrap_or(false);
    let mut store_js = vec![];
    {
        let mut st = world.write_storage::<CDense<0>>();
        for (k, &id) in store_ids.iter().enumerate() {
            let e = world.entities().entity(id);
            let c = (50000 + k as u32, 60000 + k as u32);
            if st.insert(e, CDense::<0>::new(c.0, c.1)).is_ok() {
                store_js.push(json!([id, [c.0, c.1]]));
            }
        }
    }
    let mut all = BitSet::new();
    for (i, _) in &pairs {
        all.add(*i);
    }
    if let Some(a) = script["refill"].as_array() {
        for p in a {
            all.add(p[0].as_u64().unwrap_or(0) as u32);
        }
    }
    for i in &store_ids {
        all.add(*i);
    }
    let r = catch(|| {
        let ents = world.entities();
        let mk = |k: usize| -> (Entity, Trail) {
            let (id, amt) = pairs[k];
            let e = match stale.iter().find(|s| s.id() == id) {
                Some(&s) if k % 2 == 0 => s,
                _ => ents.entity(id),
            };
            (e, Trail::new(k as u32 + 1, amt))
        };
        let mut cs: Option<ChangeSet<Trail>> = None;
        let mut k = 0usize;
        for (h, n) in &segs {
            let n = (*n).min(pairs.len() - k);
            let chunk: Vec<(Entity, Trail)> = (k..k + n).map(|j| mk(j)).collect();
            k += n;
            match (h.as_str(), cs.is_none()) {
                ("collect", true) if inexact => cs = Some(chunk.into_iter().filter(|_| true).collect()),
                ("collect", true) => cs = Some(chunk.into_iter().collect()),
                ("extend", _) | ("collect", false) if inexact => {
                    cs.get_or_insert_with(ChangeSet::new).extend(chunk.into_iter().filter(|_| true))
                }
                ("extend", _) | ("collect", false) => {
                    cs.get_or_insert_with(ChangeSet::new).extend(chunk)
                }
                _ => {
                    let c = cs.get_or_insert_with(ChangeSet::new);
                    for (e, t) in chunk {
                        c.add(e, t);
                    }
                }
            }
        }
        let mut cs = cs.unwrap_or_else(ChangeSet::new);
        while k < pairs.len() {
            let (e, t) = mk(k);
            cs.add(e, t);
            k += 1;
        }
        let reff = listing(&all, &cs, lend);
        let with_store: Vec<Value> = {
            let st = world.read_storage::<CDense<0>>();
            (&all, &cs, &st).join().map(|(i, t, c)| json!([i, t.parts, c.js()])).collect()
        };
        if lend {
            let mut it = (&mut cs).lend_join();
            while let Some(t) = it.next() {
                t.parts = format!("({}+{})", t.parts, tag);
            }
        } else {
            for t in (&mut cs).join() {
                t.parts = format!("({}+{})", t.parts, tag);
            }
        }
        let after_mut = listing(&all, &cs, !lend);
        // a mutable join TOGETHER with the storage: every amount is paired with the component of ITS entity
        {
            let st = world.read_storage::<CDense<0>>();
            if lend {
                let mut it = (&mut cs, &st).lend_join();
                while let Some((t, c)) = it.next() {
                    t.parts = format!("({}+{})", t.parts, c.cid());
                }
            } else {
                for (t, c) in (&mut cs, &st).join() {
                    t.parts = format!("({}+{})", t.parts, c.cid());
                }
            }
        }
        let after_mut2 = listing(&all, &cs, lend);
        // C19: ChangeSet::clear with a destructor that panics on its k-th call
        let fclear = script["fclear"].as_u64().unwrap_or(0) as u32;
        let mut fired = false;
        let mut exposed: Vec<u32> = vec![];
        if fclear > 0 {
            let before = ledger::panicked().len();
            ledger::arm_panic(fclear);
            let r = catch(|| cs.clear());
            ledger::disarm();
            fired = ledger::panicked().len() > before;
            if r.is_err() && !fired {
                panic!("ChangeSet::clear panicked on its own");
            }
            // whatever is still listed must not have been destroyed
            for (_i, t) in (&all, &cs).join() {
                if ledger::state_of(t.cid) != Some(ledger::St::Held) {
                    exposed.push(t.cid);
                }
            }
            // the change set must remain usable: refill it (by default with one amount)
            let refill: Vec<(u32, u32)> = script["refill"]
                .as_array()
                .map(|a| a.iter().map(|p| (p[0].as_u64().unwrap_or(0) as u32, p[1].as_u64().unwrap_or(0) as u32)).collect())
                .unwrap_or_else(|| vec![(pairs[0].0, 77)]);
            for (j, (id, amt)) in refill.iter().enumerate() {
                cs.add(ents.entity(*id), Trail::new(900_000 + j as u32, *amt));
            }
        }
        let post_clear = if fclear > 0 { listing(&all, &cs, false) } else { vec![] };
        let mut value = vec![];
        {
            let bs = all.clone();
            if lend {
                let mut it = (bs, cs).lend_join();
                while take < 0 || (value.len() as i64) < take {
                    match it.next() {
                        Some((i, t)) => {
                            value.push(json!([i, t.parts]));
                            ledger::give_back(t);
                        }
                        None => break,
                    }
                }
            } else {
                let mut it = (bs, cs).join();
                while take < 0 || (value.len() as i64) < take {
                    match it.next() {
                        Some((i, t)) => {
                            value.push(json!([i, t.parts]));
                            ledger::give_back(t);
                        }
                        None => break,
                    }
                }
            }
        }
        (reff, with_store, after_mut, after_mut2, value, fclear, fired, exposed, post_clear)
    });
    let pj: Vec<Value> = pairs.iter().map(|(i, a)| json!([i, a])).collect();
    match r {
        Ok((reff, with_store, after_mut, after_mut2, value, fclear, fired, exposed, post_clear)) => {
            drop(world);
            json!({"op":"CS","tid":script["tid"],"pairs":pj,"how":script["how"],"ref":reff,"with_store":with_store,
                   "store":store_js,"after_mut":after_mut,"after_mut2":after_mut2,"value":value,"take":take,"tag":tag,
                   "fclear":fclear,"fired":fired,"exposed":exposed,"post_clear":post_clear,
                   "refill": script.get("refill").cloned().unwrap_or_else(|| json!([[pairs[0].0, 77]])),
                   "ledger":ledger::dump(),"panic":""})
        }
        Err(msg) => json!({"op":"CS","tid":script["tid"],"pairs":pj,"ref":[],"with_store":[],"store":store_js,
                           "after_mut":[],"after_mut2":[],"value":[],"take":take,"tag":tag,"fclear":0,"fired":false,"exposed":[],"post_clear":[],"refill":[],
                           "ledger":ledger::dump(),"panic":msg}),
    }
}

pub fn run_file(input: &str, out: &mut Out) {
    let text = std::fs::read_to_string(input).expect("read scripts");
    for line in text.lines() {
        if line.trim().is_empty() {
            continue;
        }
        let script: Value = serde_json::from_str(line).expect("script json");
        out.begin_script(&script["tid"]);
        let ev = run_script(&script);
        out.line(&ev.to_string());
    }
}
