//! Save / load domain (C14, C15): several worlds, entities with two plain
//! components and one component holding references to other entities, marked
//! with `SimpleMarker` or `UuidMarker`; scripts mark, delete, maintain, save
//! (plain / recursive, json / ron) and load (own data, another world's data,
//! permuted or synthetic data).  After every operation the complete content
//! of the affected world is recorded.  SaveLoad_L0.tla decides.

use crate::util::{catch, Out};
use serde::{Deserialize, Serialize};
use serde_json::{json, Value};
use specs::prelude::*;
use specs::saveload::{
    ConvertSaveload, DeserializeComponents, EntityData, MarkedBuilder, Marker, MarkerAllocator, SerializeComponents,
    SimpleMarker, SimpleMarkerAllocator, UuidMarker, UuidMarkerAllocator,
};

#[derive(Clone, Debug, Serialize, Deserialize, PartialEq)]
pub struct SA(u32);
impl Component for SA {
    type Storage = VecStorage<Self>;
}
#[derive(Clone, Debug, Serialize, Deserialize, PartialEq)]
pub struct SB(i64);
impl Component for SB {
    type Storage = HashMapStorage<Self>;
}
/// The reference component.  Up to four references are held in a shape whose
/// conversion is DERIVED (unit / tuple / named-field enum variants of `Entity`);
/// longer lists use a hand-written conversion that converts the references one
/// by one with the library's own `Entity` conversion.
#[derive(Clone, Debug, specs::ConvertSaveload)]
pub enum RefShape {
    Nil,
    One(Entity),
    Pair(Entity, Entity),
    Named { first: Entity, second: Entity, third: Entity },
    Quad(Entity, Entity, Entity, Entity),
}

/// error of the reference component's conversion: in "fallible" scripts a reference to an entity without
/// marker makes the conversion fail (instead of panicking like the library's own `Entity` conversion)
#[derive(Debug)]
pub enum SlErr {
    Dangling,
}
impl std::fmt::Display for SlErr {
    fn fmt(&self, f: &mut std::fmt::Formatter<'_>) -> std::fmt::Result {
        write!(f, "reference to an entity without marker")
    }
}
impl From<std::convert::Infallible> for SlErr {
    fn from(x: std::convert::Infallible) -> SlErr {
        match x {}
    }
}
thread_local!(static FALLIBLE: std::cell::Cell<bool> = std::cell::Cell::new(false));

#[derive(Clone, Debug)]
pub enum SRefs {
    Shape(RefShape),
    Long(Vec<Entity>),
}
impl Component for SRefs {
    type Storage = DenseVecStorage<Self>;
}
impl SRefs {
    pub fn new(v: Vec<Entity>) -> SRefs {
        match v.len() {
            0 => SRefs::Shape(RefShape::Nil),
            1 => SRefs::Shape(RefShape::One(v[0])),
            2 => SRefs::Shape(RefShape::Pair(v[0], v[1])),
            3 => SRefs::Shape(RefShape::Named { first: v[0], second: v[1], third: v[2] }),
            4 => SRefs::Shape(RefShape::Quad(v[0], v[1], v[2], v[3])),
            _ => SRefs::Long(v),
        }
    }
    pub fn list(&self) -> Vec<Entity> {
        match self {
            SRefs::Shape(RefShape::Nil) => vec![],
            SRefs::Shape(RefShape::One(a)) => vec![*a],
            SRefs::Shape(RefShape::Pair(a, b)) => vec![*a, *b],
            SRefs::Shape(RefShape::Named { first, second, third }) => vec![*first, *second, *third],
            SRefs::Shape(RefShape::Quad(a, b, c, d)) => vec![*a, *b, *c, *d],
            SRefs::Long(v) => v.clone(),
        }
    }
}

/// serialised form of the reference component
#[derive(Serialize, Deserialize)]
#[serde(bound = "M: Marker")]
pub enum SRefsData<M: Marker> {
    Shape(<RefShape as ConvertSaveload<M>>::Data),
    Long(Vec<M>),
}
impl<M: Marker> SRefsData<M> {
    pub fn new(v: Vec<M>) -> SRefsData<M> {
        let mut it = v.clone().into_iter();
        let mut nx = || it.next().unwrap();
        match v.len() {
            0 => SRefsData::Shape(RefShapeSaveloadData::Nil),
            1 => SRefsData::Shape(RefShapeSaveloadData::One(nx())),
            2 => SRefsData::Shape(RefShapeSaveloadData::Pair(nx(), nx())),
            3 => SRefsData::Shape(RefShapeSaveloadData::Named { first: nx(), second: nx(), third: nx() }),
            4 => SRefsData::Shape(RefShapeSaveloadData::Quad(nx(), nx(), nx(), nx())),
            _ => SRefsData::Long(v),
        }
    }
    pub fn list(&self) -> Vec<M> {
        match self {
            SRefsData::Shape(RefShapeSaveloadData::Nil) => vec![],
            SRefsData::Shape(RefShapeSaveloadData::One(a)) => vec![a.clone()],
            SRefsData::Shape(RefShapeSaveloadData::Pair(a, b)) => vec![a.clone(), b.clone()],
            SRefsData::Shape(RefShapeSaveloadData::Named { first, second, third }) => vec![first.clone(), second.clone(), third.clone()],
            SRefsData::Shape(RefShapeSaveloadData::Quad(a, b, c, d)) => vec![a.clone(), b.clone(), c.clone(), d.clone()],
            SRefsData::Long(v) => v.clone(),
        }
    }
}

impl<M: Marker + Serialize> ConvertSaveload<M> for SRefs
where
    for<'de> M: Deserialize<'de>,
{
    type Data = SRefsData<M>;
    type Error = SlErr;

    fn convert_into<F>(&self, mut ids: F) -> Result<Self::Data, Self::Error>
    where
        F: FnMut(Entity) -> Option<M>,
    {
        if FALLIBLE.with(|f| f.get()) && self.list().iter().any(|&e| ids(e).is_none()) {
            return Err(SlErr::Dangling);
        }
        match self {
            SRefs::Shape(sh) => Ok(SRefsData::Shape(<RefShape as ConvertSaveload<M>>::convert_into(sh, &mut ids).unwrap())),
            SRefs::Long(es) => {
                let mut v = vec![];
                for e in es {
                    v.push(<Entity as ConvertSaveload<M>>::convert_into(e, &mut ids).unwrap());
                }
                Ok(SRefsData::Long(v))
            }
        }
    }

    fn convert_from<F>(data: Self::Data, mut ids: F) -> Result<Self, Self::Error>
    where
        F: FnMut(M) -> Option<Entity>,
    {
        match data {
            SRefsData::Shape(d) => Ok(SRefs::Shape(<RefShape as ConvertSaveload<M>>::convert_from(d, &mut ids).unwrap())),
            SRefsData::Long(ms) => {
                let mut v = vec![];
                for m in ms {
                    v.push(<Entity as ConvertSaveload<M>>::convert_from(m, &mut ids).unwrap());
                }
                Ok(SRefs::Long(v))
            }
        }
    }
}

pub struct Tag;
type SM = SimpleMarker<Tag>;

pub trait MarkerJs: Marker {
    fn idjs(&self) -> Value;
    fn from_js(v: &Value) -> Self;
}
impl MarkerJs for SM {
    fn idjs(&self) -> Value {
        json!(self.id())
    }
    fn from_js(v: &Value) -> Self {
        // the only public way to obtain a SimpleMarker with a given id
        let id = v.as_u64().unwrap_or(0);
        serde_json::from_value(json!([id])).or_else(|_| serde_json::from_value(json!(id))).unwrap()
    }
}
impl MarkerJs for UuidMarker {
    fn idjs(&self) -> Value {
        json!(self.uuid().to_string())
    }
    fn from_js(v: &Value) -> Self {
        UuidMarker::new(uuid::Uuid::parse_str(v.as_str().unwrap_or("")).unwrap_or_else(|_| uuid::Uuid::from_u128(v.as_u64().unwrap_or(0) as u128)))
    }
}

type Comps<M> = (Option<SA>, Option<SB>, Option<SRefsData<M>>);
type Recs<M> = Vec<EntityData<M, Comps<M>>>;

fn hj(e: Entity) -> Value {
    json!([e.id(), e.gen().id()])
}

fn new_world<M: MarkerJs>(proto: &M::Allocator) -> World
where
    M::Allocator: Clone,
    <M as Component>::Storage: Default,
{
    let mut w = World::new();
    w.register::<SA>();
    w.register::<SB>();
    w.register::<SRefs>();
    w.register::<M>();
    // every world of a script gets a copy of one freshly made allocator (as src/saveload/tests.rs does)
    w.insert(proto.clone());
    w
}

/// the value of a marker as a hash-map key sees it (fixed hasher keys): a function of the id alone
fn mhash<M: MarkerJs>(m: &M) -> u64 {
    use std::hash::Hasher;
    #[allow(deprecated)]
    let mut h = std::hash::SipHasher::new_with_keys(1, 2);
    m.hash(&mut h);
    h.finish()
}

/// (determinism runs) the hash of every live marker, of the copy in the storage and of a copy on the stack
fn mhashes<M: MarkerJs>(w: &World) -> Value {
    let ms = w.read_storage::<M>();
    let v: Vec<Value> = (&ms)
        .join()
        .map(|m| {
            let c = m.clone();
            json!([m.idjs(), mhash(m).to_string(), mhash(&c).to_string()])
        })
        .collect();
    json!(v)
}

fn obs<M: MarkerJs>(w: &World) -> Value {
    let ents = w.entities();
    let (ms, a, b, r) = (w.read_storage::<M>(), w.read_storage::<SA>(), w.read_storage::<SB>(), w.read_storage::<SRefs>());
    let v: Vec<Value> = (&ents)
        .join()
        .map(|e| {
            json!([
                hj(e),
                ms.get(e).map(|m| json!([m.idjs()])).unwrap_or(json!([])),
                a.get(e).map(|x| json!([x.0])).unwrap_or(json!([])),
                b.get(e).map(|x| json!([x.0])).unwrap_or(json!([])),
                r.get(e).map(|x| json!([x.list().iter().map(|&t| hj(t)).collect::<Vec<_>>()])).unwrap_or(json!([])),
            ])
        })
        .collect();
    json!(v)
}

fn recs_js<M: MarkerJs>(recs: &Recs<M>) -> Value {
    let v: Vec<Value> = recs
        .iter()
        .map(|r| {
            json!({
                "m": r.marker.idjs(),
                "a": r.components.0.as_ref().map(|x| json!([x.0])).unwrap_or(json!([])),
                "b": r.components.1.as_ref().map(|x| json!([x.0])).unwrap_or(json!([])),
                "r": r.components.2.as_ref().map(|x| json!([x.list().iter().map(|m| m.idjs()).collect::<Vec<_>>()])).unwrap_or(json!([])),
            })
        })
        .collect();
    json!(v)
}

fn save<M: MarkerJs + Serialize>(w: &World, rec: bool, fmt: &str) -> Result<String, String>
where
    for<'de> M: Deserialize<'de>,
{
    let ents = w.entities();
    let comps = (w.read_storage::<SA>(), w.read_storage::<SB>(), w.read_storage::<SRefs>());
    if fmt == "ron" {
        let mut buf = Vec::new();
        {
            let mut ser = ron::ser::Serializer::new(&mut buf, None).unwrap();
            if rec {
                let mut ms = w.write_storage::<M>();
                let mut al = w.write_resource::<M::Allocator>();
                SerializeComponents::<SlErr, M>::serialize_recursive(&comps, &ents, &mut ms, &mut al, &mut ser).map_err(|e| e.to_string())?;
            } else {
                let ms = w.read_storage::<M>();
                SerializeComponents::<SlErr, M>::serialize(&comps, &ents, &ms, &mut ser).map_err(|e| e.to_string())?;
            }
        }
        Ok(String::from_utf8(buf).unwrap())
    } else {
        let mut buf = Vec::new();
        {
            let mut ser = serde_json::Serializer::new(&mut buf);
            if rec {
                let mut ms = w.write_storage::<M>();
                let mut al = w.write_resource::<M::Allocator>();
                SerializeComponents::<SlErr, M>::serialize_recursive(&comps, &ents, &mut ms, &mut al, &mut ser).map_err(|e| e.to_string())?;
            } else {
                let ms = w.read_storage::<M>();
                SerializeComponents::<SlErr, M>::serialize(&comps, &ents, &ms, &mut ser).map_err(|e| e.to_string())?;
            }
        }
        Ok(String::from_utf8(buf).unwrap())
    }
}

fn parse<M: MarkerJs>(s: &str, fmt: &str) -> Recs<M>
where
    for<'de> M: Deserialize<'de>,
{
    if fmt == "ron" {
        ron::from_str(s).unwrap()
    } else {
        serde_json::from_str(s).unwrap()
    }
}

fn unparse<M: MarkerJs + Serialize>(r: &Recs<M>, fmt: &str) -> String {
    if fmt == "ron" {
        ron::to_string(r).unwrap()
    } else {
        serde_json::to_string(r).unwrap()
    }
}

fn load<M: MarkerJs + Serialize>(w: &World, data: &str, fmt: &str)
where
    for<'de> M: Deserialize<'de>,
{
    let ents = w.entities();
    let mut ms = w.write_storage::<M>();
    let mut al = w.write_resource::<M::Allocator>();
    let mut comps = (w.write_storage::<SA>(), w.write_storage::<SB>(), w.write_storage::<SRefs>());
    if fmt == "ron" {
        let mut de = ron::de::Deserializer::from_str(data).unwrap();
        DeserializeComponents::<SlErr, M>::deserialize(&mut comps, &ents, &mut ms, &mut al, &mut de).unwrap();
    } else {
        let mut de = serde_json::Deserializer::from_str(data);
        DeserializeComponents::<SlErr, M>::deserialize(&mut comps, &ents, &mut ms, &mut al, &mut de).unwrap();
    }
}

fn opt1(v: &Value) -> Value {
    // script value: null -> [], x -> [x]
    if v.is_null() {
        json!([])
    } else {
        json!([v])
    }
}

fn run<M: MarkerJs + Serialize>(script: &Value) -> Vec<String>
where
    for<'de> M: Deserialize<'de>,
    M::Allocator: Default + Clone,
    <M as Component>::Storage: Default,
{
    let nworlds = script["worlds"].as_u64().unwrap_or(2) as usize;
    let fallible = script["fallible"].as_bool().unwrap_or(false);
    FALLIBLE.with(|f| f.set(fallible));
    let proto = M::Allocator::default();
    let mut worlds: Vec<World> = (0..nworlds).map(|_| new_world::<M>(&proto)).collect();
    // what happens in another world must not matter: in the further processes of the determinism check
    // (VERIF_PROC > 0) one more world, holding one more copy of the allocator, marks a few entities first;
    // nothing of it is recorded
    let det_proc = std::env::var("VERIF_PROC").ok().and_then(|x| x.parse::<usize>().ok());
    let shadow_n = det_proc.unwrap_or(0);
    let _shadow = if shadow_n > 0 {
        let mut sw = new_world::<M>(&proto);
        for _ in 0..(2 * shadow_n + 1) {
            let e = sw.create_entity().build();
            let mut ms = sw.write_storage::<M>();
            let mut al = sw.write_resource::<M::Allocator>();
            let _ = al.mark(e, &mut ms);
        }
        Some(sw)
    } else {
        None
    };
    let mut handles: Vec<Vec<Entity>> = vec![vec![]; nworlds];
    let mut blobs: Vec<(String, String)> = vec![];
    let mut out = vec![json!({"op":"Reset","tid":script["tid"],"worlds":nworlds}).to_string()];
    for op in script["ops"].as_array().cloned().unwrap_or_default() {
        let o = op["o"].as_str().unwrap_or("").to_string();
        let wi = (op["w"].as_u64().unwrap_or(0) as usize).min(nworlds - 1);
        let h = |k: &Value, handles: &Vec<Vec<Entity>>| -> Option<Entity> { k.as_u64().and_then(|k| handles[wi].get(k as usize).copied()) };
        let mut ev = json!({"op":"Nop","w":wi + 1,"panic":""});
        let r = catch(|| {
            let w = &mut worlds[wi];
            match o.as_str() {
                "create" => {
                    let mut b = w.create_entity();
                    if let Some(a) = op["a"].as_u64() {
                        b = b.with(SA(a as u32));
                    }
                    if let Some(x) = op["b"].as_i64() {
                        b = b.with(SB(x));
                    }
                    let e = b.build();
                    handles[wi].push(e);
                    ev = json!({"op":"Create","w":wi+1,"h":hj(e),"a":opt1(&op["a"]),"b":opt1(&op["b"]),"panic":""});
                }
                "create_marked" => {
                    // MarkedBuilder: EntityBuilder::marked / EntityResBuilder::marked
                    let via_res = op["via"].as_str() == Some("res");
                    let e = if via_res {
                        let ents = w.entities();
                        let mut ms = w.write_storage::<M>();
                        let mut al = w.write_resource::<M::Allocator>();
                        let mut b = ents.build_entity();
                        if let Some(a) = op["a"].as_u64() {
                            b = b.with(SA(a as u32), &mut w.write_storage::<SA>());
                        }
                        b.marked(&mut ms, &mut al).build()
                    } else {
                        let mut b = w.create_entity();
                        if let Some(a) = op["a"].as_u64() {
                            b = b.with(SA(a as u32));
                        }
                        b.marked::<M>().build()
                    };
                    handles[wi].push(e);
                    let mid = w.read_storage::<M>().get(e).map(|m| json!([m.idjs()])).unwrap_or(json!([]));
                    // recorded as a creation followed by a marking (two events)
                    let mut ev1 = json!({"op":"Create","w":wi+1,"h":hj(e),"a":opt1(&op["a"]),"b":[],"panic":""});
                    // the content right after creation is not observable separately: give the creation event
                    // the observation without the marker
                    let full = obs::<M>(w);
                    let mut pre = full.clone();
                    for ent in pre.as_array_mut().unwrap() {
                        if ent[0] == hj(e) {
                            ent[1] = json!([]);
                        }
                    }
                    ev1["obs"] = pre;
                    out.push(ev1.to_string());
                    ev = json!({"op":"Mark","w":wi+1,"h":hj(e),"res":mid,"new":true,"panic":""});
                }
                "lcreate_marked" => {
                    // MarkedBuilder for LazyBuilder: the marking is queued and applied by maintain;
                    // optionally the entity is marked directly in between (the existing marker must win)
                    // or `.marked()` is given twice
                    let e = {
                        let ents = w.entities();
                        let lazy = w.read_resource::<LazyUpdate>();
                        let mut b = lazy.create_entity(&ents);
                        if let Some(a) = op["a"].as_u64() {
                            b = b.with(SA(a as u32));
                        }
                        b = b.marked::<M>();
                        if op["twice"].as_bool() == Some(true) {
                            b = b.marked::<M>();
                        }
                        b.build()
                    };
                    handles[wi].push(e);
                    let mut ev1 = json!({"op":"Create","w":wi+1,"h":hj(e),"a":[],"b":[],"panic":""});
                    ev1["obs"] = obs::<M>(w);
                    out.push(ev1.to_string());
                    if op["premark"].as_bool() == Some(true) {
                        let r = {
                            let mut ms = w.write_storage::<M>();
                            let mut al = w.write_resource::<M::Allocator>();
                            al.mark(e, &mut ms).map(|(m, new)| (m.idjs(), new))
                        };
                        let mut ev2 = match r {
                            Some((id, new)) => json!({"op":"Mark","w":wi+1,"h":hj(e),"res":[id],"new":new,"panic":""}),
                            None => json!({"op":"Mark","w":wi+1,"h":hj(e),"res":[],"new":false,"panic":""}),
                        };
                        ev2["obs"] = obs::<M>(w);
                        out.push(ev2.to_string());
                    }
                    w.maintain();
                    let mid = w.read_storage::<M>().get(e).map(|m| json!([m.idjs()])).unwrap_or(json!([]));
                    ev = json!({"op":"LazyMarked","w":wi+1,"h":hj(e),"a":opt1(&op["a"]),"res":mid,"panic":""});
                }
                "ecreate" => {
                    let e = w.entities().create();
                    handles[wi].push(e);
                    ev = json!({"op":"Create","w":wi+1,"h":hj(e),"a":[],"b":[],"panic":""});
                }
                "set" => {
                    if let Some(e) = h(&op["h"], &handles) {
                        let c = op["c"].as_str().unwrap_or("a");
                        let v = &op["v"];
                        let vj;
                        match c {
                            "a" => {
                                let mut st = w.write_storage::<SA>();
                                if let Some(x) = v.as_u64() {
                                    let _ = st.insert(e, SA(x as u32));
                                } else {
                                    st.remove(e);
                                }
                                vj = opt1(v);
                            }
                            "b" => {
                                let mut st = w.write_storage::<SB>();
                                if let Some(x) = v.as_i64() {
                                    let _ = st.insert(e, SB(x));
                                } else {
                                    st.remove(e);
                                }
                                vj = opt1(v);
                            }
                            _ => {
                                let mut st = w.write_storage::<SRefs>();
                                if let Some(a) = v.as_array() {
                                    let ts: Vec<Entity> = a.iter().filter_map(|k| h(k, &handles)).collect();
                                    let _ = st.insert(e, SRefs::new(ts.clone()));
                                    vj = json!([ts.iter().map(|&t| hj(t)).collect::<Vec<_>>()]);
                                } else {
                                    st.remove(e);
                                    vj = json!([]);
                                }
                            }
                        }
                        ev = json!({"op":"Set","w":wi+1,"h":hj(e),"c":c,"v":vj,"panic":""});
                    }
                }
                "mark" => {
                    if let Some(e) = h(&op["h"], &handles) {
                        let mut ms = w.write_storage::<M>();
                        let mut al = w.write_resource::<M::Allocator>();
                        let r = al.mark(e, &mut ms).map(|(m, new)| (m.idjs(), new));
                        ev = match r {
                            Some((id, new)) => json!({"op":"Mark","w":wi+1,"h":hj(e),"res":[id],"new":new,"panic":""}),
                            None => json!({"op":"Mark","w":wi+1,"h":hj(e),"res":[],"new":false,"panic":""}),
                        };
                    }
                }
                "unmark" => {
                    // the marker component is removed by hand; the allocator is not told
                    if let Some(e) = h(&op["h"], &handles) {
                        let _ = w.write_storage::<M>().remove(e);
                        ev = json!({"op":"Unmark","w":wi+1,"h":hj(e),"panic":""});
                    }
                }
                "delete" => {
                    if let Some(e) = h(&op["h"], &handles) {
                        let _ = w.delete_entity(e);
                        ev = json!({"op":"Delete","w":wi+1,"h":hj(e),"panic":""});
                    }
                }
                "edelete" => {
                    if let Some(e) = h(&op["h"], &handles) {
                        let _ = w.entities().delete(e);
                        ev = json!({"op":"EDelete","w":wi+1,"h":hj(e),"panic":""});
                    }
                }
                "maintain" => {
                    w.maintain();
                    ev = json!({"op":"Maintain","w":wi+1,"panic":""});
                }
                "copymark" => {
                    // (determinism scripts only) a copy of one entity's marker is inserted for another
                    // entity by hand, so that several live entities carry one id; which of them the
                    // allocator resolves the id to afterwards must still be a function of the history
                    if let (Some(src), Some(dst)) = (h(&op["h"], &handles), h(&op["to"], &handles)) {
                        let m = w.read_storage::<M>().get(src).cloned();
                        if let Some(m) = m {
                            let _ = w.write_storage::<M>().insert(dst, m);
                        }
                        ev = json!({"op":"CopyMark","w":wi+1,"h":hj(src),"to":hj(dst),"panic":""});
                    }
                }
                "resolve" => {
                    // which entity the allocator resolves a marker id to
                    let id = M::from_js(&op["m"]);
                    let al = w.read_resource::<M::Allocator>();
                    let r = al.retrieve_entity_internal(id.id());
                    ev = json!({"op":"Resolve","w":wi+1,"m":id.idjs(),"res":r.map(hj).unwrap_or(json!([])),"panic":""});
                }
                "retrieve" => {
                    // the creation path of deserialisation, called directly: the entity carrying the
                    // marker, or a new one
                    let m = M::from_js(&op["m"]);
                    let e = {
                        let ents = w.entities();
                        let mut ms = w.write_storage::<M>();
                        let mut al = w.write_resource::<M::Allocator>();
                        al.retrieve_entity(m.clone(), &mut ms, &ents)
                    };
                    handles[wi].push(e);
                    ev = json!({"op":"Retrieve","w":wi+1,"m":m.idjs(),"res":hj(e),"panic":""});
                }
                "aclone" => {
                    // the world's allocator is replaced by a clone of itself (a snapshot taken and put back)
                    let a: M::Allocator = (*w.read_resource::<M::Allocator>()).clone();
                    *w.write_resource::<M::Allocator>() = a;
                    ev = json!({"op":"AClone","w":wi+1,"panic":""});
                }
                "amaintain" => {
                    {
                        let ents = w.entities();
                        let ms = w.read_storage::<M>();
                        let mut al = w.write_resource::<M::Allocator>();
                        al.maintain(&ents, &ms);
                    }
                    ev = json!({"op":"AMaintain","w":wi+1,"panic":""});
                }
                "save" => {
                    let rec = op["rec"].as_bool().unwrap_or(false);
                    let fmt = op["fmt"].as_str().unwrap_or("json").to_string();
                    ev = json!({"op":"Save","w":wi+1,"rec":rec,"fmt":fmt,"data":[],"err":false,"fallible":fallible,"panic":""});
                    match save::<M>(w, rec, &fmt) {
                        Ok(s) => {
                            let recs: Recs<M> = parse::<M>(&s, &fmt);
                            ev["data"] = recs_js(&recs);
                            blobs.push((s, fmt));
                        }
                        Err(_) => {
                            // the serialisation reported an error: nothing was saved (an empty save takes its slot)
                            ev["err"] = json!(true);
                            blobs.push((unparse::<M>(&vec![], &fmt), fmt));
                        }
                    }
                }
                "load" => {
                    let k = op["blob"].as_u64().unwrap_or(0) as usize;
                    if let Some((s, fmt)) = blobs.get(k).cloned() {
                        let mut recs: Recs<M> = parse::<M>(&s, &fmt);
                        // "whatever the order of entities in the data"
                        if let Some(p) = op["perm"].as_array() {
                            let mut idx: Vec<usize> = p.iter().filter_map(|x| x.as_u64()).map(|x| x as usize).filter(|&x| x < recs.len()).collect();
                            idx.dedup();
                            let mut taken: Vec<Option<EntityData<M, Comps<M>>>> = recs.drain(..).map(Some).collect();
                            let mut out2 = vec![];
                            for i in idx {
                                if let Some(r) = taken[i].take() {
                                    out2.push(r);
                                }
                            }
                            for r in taken.into_iter().flatten() {
                                out2.push(r);
                            }
                            recs = out2;
                        }
                        let fmt2 = op["fmt"].as_str().unwrap_or(&fmt).to_string();
                        let data = unparse::<M>(&recs, &fmt2);
                        let empty = (&w.entities()).join().next().is_none();
                        ev = json!({"op":"Load","w":wi+1,"recs":recs_js(&recs),"ctx": if empty {"C14"} else {"C15"},"panic":""});
                        load::<M>(w, &data, &fmt2);
                    }
                }
                "loadsynth" => {
                    // records given by the script (marker ids chosen freely, e.g. above the counter)
                    let fmt = op["fmt"].as_str().unwrap_or("json").to_string();
                    let recs: Recs<M> = op["recs"]
                        .as_array()
                        .cloned()
                        .unwrap_or_default()
                        .iter()
                        .map(|r| EntityData {
                            marker: M::from_js(&r["m"]),
                            components: (
                                r["a"].as_u64().map(|x| SA(x as u32)),
                                r["b"].as_i64().map(SB),
                                r["r"].as_array().map(|a| SRefsData::new(a.iter().map(M::from_js).collect())),
                            ),
                        })
                        .collect();
                    let data = unparse::<M>(&recs, &fmt);
                    let empty = (&w.entities()).join().next().is_none();
                    ev = json!({"op":"Load","w":wi+1,"recs":recs_js(&recs),"ctx": if empty {"C14"} else {"C15"},"panic":""});
                    load::<M>(w, &data, &fmt);
                }
                _ => {}
            }
        });
        if let Err(msg) = &r {
            ev["panic"] = json!(msg);
        }
        if ev["op"] == "Nop" {
            if let Err(msg) = &r {
                // the operation panicked inside the library before it returned anything
                let ob = catch(|| obs::<M>(&worlds[wi])).unwrap_or(json!([]));
                out.push(json!({"op":"Panic","w":wi+1,"in":o,"msg":msg,"obs":ob,"panic":msg}).to_string());
                break;
            }
            continue;
        }
        let ob = catch(|| obs::<M>(&worlds[wi]));
        match ob {
            Ok(o) => {
                ev["obs"] = o;
                if det_proc.is_some() {
                    ev["mh"] = catch(|| mhashes::<M>(&worlds[wi])).unwrap_or(json!("panic"));
                }
                out.push(ev.to_string());
            }
            Err(_) => break,
        }
        if ev["panic"] != "" {
            break;
        }
    }
    out
}

pub fn run_file(input: &str, out: &mut Out) {
    let text = std::fs::read_to_string(input).expect("read scripts");
    for line in text.lines() {
        if line.trim().is_empty() {
            continue;
        }
        let script: Value = serde_json::from_str(line).expect("script json");
        out.begin_script(&script["tid"]);
        let lines = if script["marker"] == "uuid" { run::<UuidMarker>(&script) } else { run::<SM>(&script) };
        for l in lines {
            out.line(&l);
        }
    }
}
