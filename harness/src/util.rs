//! Small helpers: panic capture (a panic in code under test is data) and
//! buffered ndjson output.

use std::io::Write;
use std::panic::{catch_unwind, AssertUnwindSafe};

pub fn silence_panics() {
    std::panic::set_hook(Box::new(|_| {}));
}

pub fn catch<R>(f: impl FnOnce() -> R) -> Result<R, String> {
    match catch_unwind(AssertUnwindSafe(f)) {
        Ok(r) => Ok(r),
        Err(p) => {
            let msg = if let Some(s) = p.downcast_ref::<&str>() {
                s.to_string()
            } else if let Some(s) = p.downcast_ref::<String>() {
                s.clone()
            } else {
                "non-string panic payload".to_string()
            };
            let mut m: String = msg.chars().take(200).collect();
            m = m.replace('\n', " ");
            Err(m)
        }
    }
}

pub struct Out {
    w: std::io::BufWriter<std::fs::File>,
    cur: String,
    pub lines: u64,
}

impl Out {
    pub fn create(path: &str) -> Out {
        Out {
            w: std::io::BufWriter::with_capacity(1 << 20, std::fs::File::create(path).expect("create output")),
            cur: format!("{}.cur", path),
            lines: 0,
        }
    }
    pub fn line(&mut self, s: &str) {
        self.w.write_all(s.as_bytes()).unwrap();
        self.w.write_all(b"\n").unwrap();
        self.lines += 1;
    }
    /// called before a script runs: everything recorded so far is on disk and the
    /// id of the script about to run is in the side file, so that a crash of the
    /// code under test (abort, segfault) can be attributed to that script
    pub fn begin_script(&mut self, tid: &serde_json::Value) {
        self.w.flush().unwrap();
        // atomically: another thread of the code under test may abort the process at any moment
        let tmp = format!("{}.tmp", self.cur);
        if std::fs::write(&tmp, tid.to_string()).is_ok() {
            let _ = std::fs::rename(&tmp, &self.cur);
        }
    }
    pub fn finish(mut self) {
        let _ = std::fs::remove_file(&self.cur);
        self.w.flush().unwrap();
    }
}
